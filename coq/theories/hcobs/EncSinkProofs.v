From Coq Require Import List NArith Bool Arith Lia.
From WP Require Import hcobs.Stuffing hcobs.EncChunks hcobs.EncChunksProofs hcobs.Dec hcobs.EncSink.
Import ListNotations.

(* ---- sink facts ---- *)
Lemma count_holes_app id a b : count_holes id (a ++ b) = count_holes id a + count_holes id b.
Proof. induction a as [|[x|i] t IH]; cbn [app count_holes]; auto. rewrite IH. lia. Qed.
Lemma count_holes_bytes id bs : count_holes id (map CB bs) = 0.
Proof. induction bs; cbn; auto. Qed.
Lemma count_holes_repeat id k : count_holes id (repeat (CH id) k) = k.
Proof. induction k; cbn [repeat count_holes]; auto. rewrite Nat.eqb_refl, IHk. lia. Qed.
Lemma fill_bytes id bs l r : fill id bs (map CB l ++ r) = map CB l ++ fill id bs r.
Proof. induction l; cbn [map app fill]; auto. now rewrite IHl. Qed.
Lemma fill_bytes_only id bs l : fill id bs (map CB l) = map CB l.
Proof. induction l; cbn [map fill]; auto. now rewrite IHl. Qed.
Lemma fill_repeat id : forall hdr r, fill id hdr (repeat (CH id) (length hdr) ++ map CB r) = map CB hdr ++ map CB r.
Proof.
  induction hdr as [|h t IH]; intros r; cbn [length repeat app map fill]; [apply fill_bytes_only|].
  rewrite Nat.eqb_refl. f_equal. apply IH.
Qed.

Lemma stable_bytes_app l r : stable (map CB l ++ r) = l ++ stable r.
Proof. induction l; cbn [map app stable]; auto. now rewrite IHl. Qed.
Lemma all_bytes_map l : all_bytes (map CB l) = Some l.
Proof. induction l; cbn [map all_bytes]; auto. now rewrite IHl. Qed.
Lemma stable_hole id k r : stable (repeat (CH id) (S k) ++ r) = [].
Proof. reflexivity. Qed.

(* ---- framing facts ---- *)
Lemma frame_rest_app a b : frame_rest (a ++ b) = frame_rest a ++ frame_rest b.
Proof. induction a as [|c t IH]; cbn [app frame_rest]; auto. rewrite IH, <- !app_assoc. reflexivity. Qed.
Definition hdr_for (cs : list (list byte)) (n : nat) : list byte := hdr (match cs with [] => true | _ => false end) n.
Lemma frame_snoc cs p : frame (cs ++ [p]) = frame cs ++ hdr_for cs (length p) ++ p.
Proof.
  destruct cs as [|c t]; cbn [app frame hdr_for]; [cbn [frame_rest]; now rewrite !app_nil_r|].
  rewrite frame_rest_app. cbn [frame_rest]. rewrite app_nil_r, <- !app_assoc. reflexivity.
Qed.

Section Sim.
Variables mi ms : nat.
Hypothesis Hmi : 0 < mi <= 252.
Hypothesis Hms : 0 < ms < RADIX * RADIX.

Definition hlen (cs : list (list byte)) : nat := match cs with [] => 1 | _ => 2 end.
Definition lim_of (cs : list (list byte)) : nat := match cs with [] => mi | _ => ms end.

(* the sink holds: what was drained ++ the rest of the closed chunks' frame, the header hole of the
   open chunk, and the bytes `w` written into it so far *)
Record SimW (e2 : enc) (s : sink) (e : est) (w : list byte) : Prop := {
  sw_cells : exists pre, frame (closed e) = taken s ++ pre /\
             cells s = map CB pre ++ repeat (CH (bid e2)) (blen e2) ++ map CB w;
  sw_blen : blen e2 = hlen (closed e);
  sw_max : maxc e2 = limit e;
  sw_lim : limit e = lim_of (closed e);
  sw_cur : cur e2 = length w
}.
Definition Sim (e2 : enc) (s : sink) (e : est) : Prop := SimW e2 s e (written e) /\ mid e2 = mms e.

Lemma lim_bounds cs : 0 < lim_of cs < RADIX * RADIX /\ (cs = [] -> lim_of cs <= 252).
Proof. unfold lim_of, RADIX in *. destruct cs; split; try lia; intros; try discriminate; lia. Qed.

Lemma write_sim e2 s e w p : SimW e2 s e w -> length w + length p <= limit e ->
  exists e2' s', enc_write e2 s p = Ok (e2', s') /\ SimW e2' s' e (w ++ p) /\ mid e2' = mid e2 /\ taken s' = taken s.
Proof.
  intros [ (pre & F & C) B M L Cu ] Hle. destruct p as [|b p'].
  - exists e2, s. cbn [enc_write]. rewrite app_nil_r. repeat split; auto. exists pre; auto.
  - unfold enc_write. set (p := b :: p') in *.
    assert (maxc e2 <? cur e2 + length p = false) as -> by (apply Nat.ltb_ge; lia).
    eexists _, _. split; [reflexivity|]. split; [|split; reflexivity].
    constructor; cbn [maxc cur bid blen taken cells s_push]; auto.
    + exists pre. split; auto. rewrite C, <- !app_assoc, map_app. reflexivity.
    + rewrite app_length. lia.
Qed.

Lemma partial_sim e2 s e w : SimW e2 s e w -> length w + 1 <= limit e ->
  exists e2' s', enc_write_partial_stuff e2 s = Ok (e2', s') /\ SimW e2' s' e (w ++ [FE]) /\ mid e2' = mid e2 /\ taken s' = taken s.
Proof.
  intros [ (pre & F & C) B M L Cu ] Hle. unfold enc_write_partial_stuff.
  assert (maxc e2 <? cur e2 + 1 = false) as -> by (apply Nat.ltb_ge; lia).
  eexists _, _. split; [reflexivity|]. split; [|split; reflexivity].
  constructor; cbn [maxc cur bid blen taken cells s_push]; auto.
  - exists pre. split; auto. rewrite C, <- !app_assoc, map_app. reflexivity.
  - rewrite app_length. cbn [length]. lia.
Qed.

Lemma header_bytes cs n : n <= lim_of cs ->
  firstn (hlen cs) [N.of_nat (n mod RADIX); N.of_nat (n / RADIX); 0%N] = hdr_for cs n /\
  N.eqb (nth (hlen cs) [N.of_nat (n mod RADIX); N.of_nat (n / RADIX); 0%N] 0%N) 0%N = true.
Proof.
  intros H. destruct (lim_bounds cs) as (B1 & B2). destruct cs as [|c t]; cbn [hlen hdr_for hdr firstn nth].
  - specialize (B2 eq_refl). assert (n < RADIX) by (unfold RADIX; lia).
    rewrite Nat.mod_small, Nat.div_small by assumption. split; reflexivity.
  - split; reflexivity.
Qed.

(* closing the open chunk: backfill its header, register the next one *)
Lemma close_sim e2 s e w (c n : nat) : SimW e2 s e w -> n = cur e2 -> length w <= limit e ->
  exists e3 s3,
    match encode_header n s e2 with
    | Panic => Panic
    | Ok s2 => let '(e3, s3) := enc_new_subsequent s2 ms in Ok (e3, s3, c)
    end = Ok (e3, s3, c) /\ Sim e3 s3 (close e w ms) /\ taken s3 = taken s.
Proof.
  intros [ (pre & F & C) B M L Cu ] -> Hle. unfold encode_header. rewrite Cu, B.
  destruct (lim_bounds (closed e)) as (LB & _). rewrite L in Hle.
  assert (RADIX * RADIX <=? length w = false) as -> by (apply Nat.leb_gt; lia).
  destruct (header_bytes (closed e) (length w) Hle) as (HB & HZ). rewrite HZ, HB.
  assert ((1 <=? hlen (closed e)) && (hlen (closed e) <=? 2) = true) as -> by (destruct (closed e); reflexivity).
  cbn [negb]. unfold s_backfill. rewrite C, !count_holes_app, !count_holes_bytes, B, count_holes_repeat.
  assert (HL : length (hdr_for (closed e) (length w)) = hlen (closed e)) by (destruct (closed e); reflexivity).
  rewrite HL, Nat.add_0_l, Nat.add_0_r, Nat.eqb_refl.
  unfold enc_new_subsequent, s_register. cbn [cells nid taken].
  eexists _, _. split; [reflexivity|]. split; [|reflexivity]. split; [|reflexivity].
  constructor; cbn [maxc cur bid blen taken cells closed written limit close mid mms]; auto.
  - exists (pre ++ hdr_for (closed e) (length w) ++ w). split.
    + rewrite frame_snoc, F, <- !app_assoc. reflexivity.
    + rewrite fill_bytes, <- HL, fill_repeat. rewrite !map_app, <- !app_assoc. cbn [map app]. now rewrite app_nil_r.
  - destruct (closed e); reflexivity.
  - destruct (closed e); reflexivity.
Qed.

Lemma removelast_firstn' {A} (l : list A) : removelast l = firstn (length l - 1) l.
Proof.
  induction l as [|a t IH]; [reflexivity|]. destruct t as [|b t']; [reflexivity|].
  change (removelast (a :: b :: t')) with (a :: removelast (b :: t')). rewrite IH.
  cbn [length]. replace (S (S (length t')) - 1) with (S (S (length t') - 1)) by lia. reflexivity.
Qed.

(* one consume_once step of the sink-level model follows the chunk-level model *)
Lemma consume_once_sim e2 s e x y e' c :
  Sim e2 s e -> Rep mi ms e x -> y <> [] -> consume_once ms e y = (e', c) ->
  exists e2' s', consume_once_s ms e2 s y = Ok (e2', s', c) /\ Sim e2' s' e' /\ taken s' = taken s.
Proof.
  intros (SW & Hmid) R Hy H. pose proof (r_len mi ms e x R) as RL. unfold open_of in RL. rewrite app_length in RL.
  destruct y as [|b0 y0] eqn:Ey; [congruence|]. rewrite <- Ey in *.
  unfold consume_once in H. rewrite Ey in H. rewrite <- Ey in H.
  unfold consume_once_s. rewrite Ey. rewrite <- Ey.
  pose proof (sw_max _ _ _ _ SW) as HM. pose proof (sw_cur _ _ _ _ SW) as HC. rewrite Hmid, HM, HC.
  assert (length (written e) + (if mms e then 1 else 0) <? limit e = true) as ->
    by (apply Nat.ltb_lt; destruct (mms e); cbn [length] in RL; lia).
  cbn [negb]. destruct (mms e && N.eqb b0 FD)%bool eqn:CA.
  - inversion H; subst e' c. apply close_sim; [exact SW|symmetry; exact HC|]. destruct (mms e); cbn [length] in RL; lia.
  - assert (length (written e) <? limit e = true) as -> by (apply Nat.ltb_lt; destruct (mms e); cbn [length] in RL; lia).
    cbn [negb].
    (* the held-back FE is written first *)
    set (w1 := if mms e then written e ++ [FE] else written e) in *.
    assert (HW1 : exists e1 s1,
      (if mms e then match enc_write_partial_stuff e2 s with
                     | Panic => Panic
                     | Ok (e1, s1) => if negb (cur e1 <? maxc e1) then Panic else Ok (e1, s1) end
       else Ok (e2, s)) = Ok (e1, s1) /\ SimW e1 s1 e w1 /\ taken s1 = taken s).
    { destruct (mms e) eqn:Em.
      - destruct (partial_sim e2 s e (written e) SW ltac:(cbn [length] in RL; lia)) as (e1 & s1 & E1 & S1 & _ & T1).
        rewrite E1. pose proof (sw_max _ _ _ _ S1) as M1. pose proof (sw_cur _ _ _ _ S1) as C1. rewrite M1, C1, app_length. cbn [length].
        assert (length (written e) + 1 <? limit e = true) as -> by (apply Nat.ltb_lt; cbn [length] in RL; lia).
        cbn [negb]. eauto.
      - eauto. }
    destruct HW1 as (e1 & s1 & -> & S1 & T1).
    pose proof (sw_max _ _ _ _ S1) as M1. pose proof (sw_cur _ _ _ _ S1) as C1. rewrite M1, C1.
    assert (LW1 : length w1 < limit e) by (unfold w1; destruct (mms e); rewrite ?app_length; cbn [length] in *; lia).
    set (remaining := limit e - length w1) in *. set (window := firstn remaining y) in *.
    assert (HWne : window <> []).
    { unfold window. rewrite Ey. destruct remaining eqn:Er; [lia|]. discriminate. }
    destruct window as [|wb wt] eqn:EW; [congruence|]. rewrite <- EW in *.
    assert (LWin : length window <= remaining) by (unfold window; rewrite firstn_length; lia).
    destruct (find_stuff window) as [idx|] eqn:F.
    + inversion H; subst e' c.
      apply find_some_len in F as (F1 & F2).
      destruct (write_sim e1 s1 e w1 (firstn idx y) S1 ltac:(rewrite firstn_length; lia)) as (e3 & s3 & -> & S3 & _ & T3).
      destruct (close_sim e3 s3 e (w1 ++ firstn idx y) (idx + 2) (cur e3) S3 eq_refl ltac:(rewrite app_length, firstn_length; lia)) as (e4 & s4 & E4 & S4 & T4).
      exists e4, s4. split; [exact E4|]. split; [exact S4|congruence].
    + destruct (length window =? remaining) eqn:EL.
      * inversion H; subst e' c. apply Nat.eqb_eq in EL.
        destruct (write_sim e1 s1 e w1 window S1 ltac:(lia)) as (e3 & s3 & -> & S3 & _ & T3).
        destruct (close_sim e3 s3 e (w1 ++ window) remaining (cur e3) S3 eq_refl ltac:(rewrite app_length; lia)) as (e4 & s4 & E4 & S4 & T4).
        exists e4, s4. split; [exact E4|]. split; [exact S4|congruence].
      * inversion H; subst e' c. apply Nat.eqb_neq in EL.
        assert (EWy : window = y).
        { unfold window. apply firstn_all2. unfold window in LWin, EL. rewrite firstn_length in LWin, EL. lia. }
        rewrite EWy in *.
        set (m' := ends_fe y) in *.
        assert (SW' : SimW (set_mid e1 m') s1 e w1) by (destruct S1; constructor; auto).
        assert (Etc : firstn (if m' then length y - 1 else length y) y = (if m' then removelast y else y)).
        { destruct m'; [symmetry; apply removelast_firstn'|apply firstn_all]. }
        rewrite Etc.
        assert (Ltc : length (if m' then removelast y else y) + (if m' then 1 else 0) = length y).
        { destruct m' eqn:Em; [|lia]. unfold m' in Em. apply ends_fe_true in Em. rewrite Em at 2. rewrite app_length. cbn [length]. lia. }
        destruct (write_sim (set_mid e1 m') s1 e w1 (if m' then removelast y else y) SW' ltac:(lia)) as (e3 & s3 & -> & S3 & Mid3 & T3).
        pose proof (sw_max _ _ _ _ S3) as M3. pose proof (sw_cur _ _ _ _ S3) as C3. rewrite M3, C3, Mid3. cbn [set_mid mid].
        rewrite app_length.
        assert (length w1 + length (if m' then removelast y else y) + (if m' then 1 else 0) <? limit e = true) as ->
          by (apply Nat.ltb_lt; lia).
        cbn [negb]. exists e3, s3. split; [reflexivity|]. split; [|congruence]. split.
        -- destruct S3 as [X1 X2 X3 X4 X5]. constructor; cbn [closed written mms limit]; auto.
        -- cbn [mms]. exact Mid3.
Qed.

Lemma encode_loop_sim : forall fuel e2 s e x y,
  Sim e2 s e -> Rep mi ms e x -> length y < fuel ->
  exists e2' s', encode_loop_s fuel ms e2 s y = Ok (e2', s') /\ Sim e2' s' (encode_loop fuel ms e y) /\ taken s' = taken s.
Proof.
  induction fuel as [|fuel IH]; intros e2 s e x y S R Hf; [lia|].
  cbn [encode_loop_s encode_loop]. destruct y as [|b0 y0] eqn:Ey; [eauto|]. rewrite <- Ey in *.
  destruct (consume_once ms e y) as [e' c] eqn:H.
  assert (Hy : y <> []) by (rewrite Ey; discriminate).
  destruct (consume_once_rep mi ms ltac:(lia) ltac:(lia) e x y e' c R Hy H) as ((C1 & C2) & R').
  destruct (consume_once_sim e2 s e x y e' c S R Hy H) as (e2' & s' & E & S' & T). rewrite E.
  assert (c <=? length y = true) as -> by (apply Nat.leb_le; lia).
  assert (0 <? c = true) as -> by (apply Nat.ltb_lt; lia). cbn [negb orb].
  destruct (IH e2' s' e' (x ++ firstn c y) (skipn c y) S' R' ltac:(rewrite skipn_length; lia)) as (e3 & s3 & E3 & S3 & T3).
  exists e3, s3. split; [exact E3|]. split; [exact S3|congruence].
Qed.

Lemma encode_piece_sim e2 s e x p : Sim e2 s e -> Rep mi ms e x ->
  exists e2' s', encode_piece_s ms e2 s p = Ok (e2', s') /\ Sim e2' s' (encode_piece ms e p) /\ taken s' = taken s.
Proof. intros S R. apply (encode_loop_sim _ e2 s e x p S R). lia. Qed.

Lemma stable_sim e2 s e w : SimW e2 s e w -> exists pre, frame (closed e) = taken s ++ pre /\ stable (cells s) = pre /\
  cells s = map CB pre ++ repeat (CH (bid e2)) (blen e2) ++ map CB w /\ 1 <= blen e2 <= 2.
Proof.
  intros [ (pre & F & C) B M L Cu ]. exists pre. split; [exact F|].
  assert (HB : 1 <= blen e2 <= 2) by (rewrite B; destruct (closed e); cbn; lia).
  split; [|split; [exact C|exact HB]]. rewrite C, stable_bytes_app.
  destruct (blen e2) as [|k]; [lia|]. rewrite stable_hole. apply app_nil_r.
Qed.

Lemma drain_sim e2 s e k : Sim e2 s e -> Sim e2 (s_drain s k) e.
Proof.
  intros (SW & Hm). split; [|exact Hm]. destruct (stable_sim e2 s e _ SW) as (pre & F & St & C & HB).
  destruct SW as [ _ B M L Cu ]. constructor; auto. unfold s_drain. cbn [taken cells]. rewrite St.
  set (n := Nat.min k (length pre)). exists (skipn n pre). split.
  - rewrite <- app_assoc, firstn_skipn. exact F.
  - rewrite C. rewrite skipn_app, map_length. replace (n - length pre) with 0 by (unfold n; lia). cbn [skipn].
    now rewrite <- skipn_map.
Qed.

(* every reachable state of an Encoder history is related to the chunk-level model, whose state is
   in turn pinned to the reference chunking by Rep *)
Lemma run_enc_sim : forall ops e2 s e x, Sim e2 s e -> Rep mi ms e x ->
  exists e2' s' e', run_enc ms e2 s ops = Ok (e2', s') /\ Sim e2' s' e' /\ Rep mi ms e' (x ++ concat (pieces_of ops)).
Proof.
  induction ops as [|o r IH]; intros e2 s e x S R; cbn [run_enc pieces_of flat_map concat].
  - exists e2, s, e. rewrite app_nil_r. auto.
  - destruct o as [p|k]; cbn [app].
    + destruct (encode_piece_sim e2 s e x p S R) as (e2' & s' & E & S' & _). rewrite E.
      pose proof (encode_piece_rep mi ms ltac:(lia) ltac:(lia) e x p R) as R'.
      destruct (IH e2' s' _ _ S' R') as (e3 & s3 & e' & E3 & S3 & R3). exists e3, s3, e'.
      split; [exact E3|]. split; [exact S3|]. cbn [concat]. rewrite app_assoc. exact R3.
    + apply (IH e2 (s_drain s k) e x (drain_sim e2 s e k S) R).
Qed.

Lemma init_sim : let '(e0, s0) := enc_new s_empty mi in Sim e0 s0 (init mi).
Proof.
  cbn. split; [|reflexivity]. constructor; cbn; auto. exists []. split; reflexivity.
Qed.

Lemma terminate_sim e2 s e x : Sim e2 s e -> Rep mi ms e x ->
  exists s', terminate_s e2 s = Ok s' /\ exists pre, frame (terminate e) = taken s' ++ pre /\ cells s' = map CB pre.
Proof.
  intros (SW & Hm) R. pose proof (r_len mi ms e x R) as RL. unfold open_of in RL. rewrite app_length in RL.
  unfold terminate_s. rewrite Hm.
  assert (HW1 : exists e1 s1, (if mms e then enc_write_partial_stuff e2 s else Ok (e2, s)) = Ok (e1, s1) /\
                              SimW e1 s1 e (open_of e) /\ taken s1 = taken s).
  { unfold open_of. destruct (mms e).
    - destruct (partial_sim e2 s e (written e) SW ltac:(cbn [length] in RL; lia)) as (e1 & s1 & E1 & S1 & _ & T1). eauto.
    - rewrite app_nil_r. eauto. }
  destruct HW1 as (e1 & s1 & -> & S1 & T1).
  pose proof (sw_max _ _ _ _ S1) as M1. pose proof (sw_cur _ _ _ _ S1) as C1. rewrite M1, C1.
  assert (LO : length (open_of e) < limit e) by (unfold open_of; rewrite app_length; exact RL).
  assert (length (open_of e) <? limit e = true) as -> by (apply Nat.ltb_lt; exact LO). cbn [negb].
  (* the header is filled exactly as in close_sim, without registering a new one *)
  destruct S1 as [ (pre & F & C) B M L Cu ]. unfold encode_header.
  destruct (lim_bounds (closed e)) as (LB & _). rewrite L in LO.
  assert (RADIX * RADIX <=? length (open_of e) = false) as -> by (apply Nat.leb_gt; lia).
  destruct (header_bytes (closed e) (length (open_of e)) ltac:(lia)) as (HB & HZ). rewrite B, HZ, HB.
  assert ((1 <=? hlen (closed e)) && (hlen (closed e) <=? 2) = true) as -> by (destruct (closed e); reflexivity).
  cbn [negb]. unfold s_backfill. rewrite C, !count_holes_app, !count_holes_bytes, B, count_holes_repeat.
  assert (HL : length (hdr_for (closed e) (length (open_of e))) = hlen (closed e)) by (destruct (closed e); reflexivity).
  rewrite HL, Nat.add_0_l, Nat.add_0_r, Nat.eqb_refl.
  eexists. split; [reflexivity|]. cbn [taken cells].
  exists (pre ++ hdr_for (closed e) (length (open_of e)) ++ open_of e). split.
  - unfold terminate. rewrite frame_snoc, F, <- !app_assoc. reflexivity.
  - rewrite fill_bytes, <- HL, fill_repeat. rewrite !map_app. reflexivity.
Qed.

(* C01/C02/C07, encoder side: whatever the segmentation into calls and whenever the consumer drains,
   no assertion fires and the bytes handed to the consumer (early ++ at finish) are the reference
   encoding of the concatenated input *)
Theorem encoder_output_is_reference ops :
  encoder_output mi ms ops = Ok (Some (encode_ref mi ms (concat (pieces_of ops)))).
Proof.
  unfold encoder_output. pose proof init_sim as S0. destruct (enc_new s_empty mi) as [e0 s0].
  destruct (run_enc_sim ops e0 s0 (init mi) [] S0 (rep_init mi ms ltac:(lia))) as (e2 & s & e & -> & S & R).
  cbn [app] in R. destruct (terminate_sim e2 s e _ S R) as (s' & -> & pre & F & C).
  rewrite C, all_bytes_map. do 2 f_equal. rewrite <- F. unfold encode_ref.
  now rewrite (rep_terminate mi ms e _ R).
Qed.

(* C09, encoder side.  At every point of every history: what was drained plus what is consumable now
   is a prefix of the final output -- for every possible continuation of the input -- and the
   cells that are not yet consumable are the open chunk and its header. *)
Lemma frame_app_prefix a b : exists t, frame (a ++ b) = frame a ++ t.
Proof.
  destruct a as [|c t]; [exists (frame b); reflexivity|]. cbn [app frame]. rewrite frame_rest_app.
  exists (frame_rest b). now rewrite <- !app_assoc.
Qed.

Theorem encoder_prefix_and_lag ops e2 s :
  (let '(e0, s0) := enc_new s_empty mi in run_enc ms e0 s0 ops) = Ok (e2, s) ->
  (forall z, exists t, encode_ref mi ms (concat (pieces_of ops) ++ z) = (taken s ++ stable (cells s)) ++ t) /\
  length (cells s) - length (stable (cells s)) <= 2 + Nat.max mi ms.
Proof.
  pose proof init_sim as S0. destruct (enc_new s_empty mi) as [e0 s0]. intros H.
  destruct (run_enc_sim ops e0 s0 (init mi) [] S0 (rep_init mi ms ltac:(lia))) as (e2' & s' & e & E & (SW & Hm) & R).
  rewrite H in E. inversion E; subst e2' s'. cbn [app] in R.
  destruct (stable_sim e2 s e _ SW) as (pre & F & St & C & HB). split.
  - intros z. unfold encode_ref. rewrite (r_online mi ms e _ R z). rewrite St, <- F. apply frame_app_prefix.
  - rewrite St, C, !app_length, !map_length, repeat_length.
    pose proof (r_len mi ms e _ R) as RL. unfold open_of in RL. rewrite app_length in RL.
    pose proof (sw_lim _ _ _ _ SW) as L. unfold lim_of in L. destruct (closed e); lia.
Qed.
End Sim.
