(* Sink-level faithful model of hcobs/src/encoder.rs: EncoderState over an abstract OwningIovec.
   The iovec is a list of cells, some of which are holes (registered placeholders not yet
   backfilled); `register_patch`, `push`/`push_copy` (byte-equivalent here) and `backfill_or_panic`
   are the three sink operations the encoder uses.  Every assert! of the Rust is a Panic branch.
   The consumer may take any number of leading cells that precede the first hole (`drain`).
   No proofs in this file. *)
From Coq Require Import List NArith Bool Arith.
From WP Require Import hcobs.Stuffing hcobs.EncChunks hcobs.Dec.
Import ListNotations.

Inductive cell := CB (b : byte) | CH (id : nat).
Record sink := { taken : list byte; cells : list cell; nid : nat }.

Definition s_empty : sink := {| taken := []; cells := []; nid := 0 |}.
Definition s_register (s : sink) (n : nat) : sink * nat :=
  ({| taken := taken s; cells := cells s ++ repeat (CH (nid s)) n; nid := S (nid s) |}, nid s).
Definition s_push (s : sink) (bs : list byte) : sink :=
  {| taken := taken s; cells := cells s ++ map CB bs; nid := nid s |}.

Fixpoint count_holes (id : nat) (cs : list cell) : nat :=
  match cs with
  | [] => 0
  | CH i :: t => (if i =? id then 1 else 0) + count_holes id t
  | CB _ :: t => count_holes id t
  end.
Fixpoint fill (id : nat) (bs : list byte) (cs : list cell) : list cell :=
  match cs with
  | [] => []
  | CH i :: t => if i =? id then match bs with b :: bs' => CB b :: fill id bs' t | [] => CH i :: fill id [] t end
                 else CH i :: fill id bs t
  | c :: t => c :: fill id bs t
  end.

Inductive res (T : Type) := Ok (x : T) | Panic.
Arguments Ok {T}. Arguments Panic {T}.

(* backfill_or_panic: the source must have exactly the registered length *)
Definition s_backfill (s : sink) (id : nat) (bs : list byte) : res sink :=
  if count_holes id (cells s) =? length bs
  then Ok {| taken := taken s; cells := fill id bs (cells s); nid := nid s |}
  else Panic.

(* what a consumer can see: the bytes before the first hole *)
Fixpoint stable (cs : list cell) : list byte :=
  match cs with CB b :: t => b :: stable t | _ => [] end.
Definition s_drain (s : sink) (k : nat) : sink :=
  let n := Nat.min k (length (stable (cells s))) in
  {| taken := taken s ++ firstn n (stable (cells s)); cells := skipn n (cells s); nid := nid s |}.
Fixpoint all_bytes (cs : list cell) : option (list byte) :=
  match cs with
  | [] => Some []
  | CB b :: t => match all_bytes t with Some r => Some (b :: r) | None => None end
  | CH _ :: _ => None
  end.

(* EncoderState *)
Record enc := { maxc : nat; cur : nat; mid : bool; bid : nat; blen : nat }.

Definition enc_new (s : sink) (mi : nat) : enc * sink :=
  let '(s', id) := s_register s 1 in ({| maxc := mi; cur := 0; mid := false; bid := id; blen := 1 |}, s').
Definition enc_new_subsequent (s : sink) (ms : nat) : enc * sink :=
  let '(s', id) := s_register s 2 in ({| maxc := ms; cur := 0; mid := false; bid := id; blen := 2 |}, s').

Definition encode_header (n : nat) (s : sink) (e : enc) : res sink :=
  if RADIX * RADIX <=? n then Panic                                           (* assert!(chunk_size < RADIX * RADIX) *)
  else
    let header := [N.of_nat (n mod RADIX); N.of_nat (n / RADIX); 0%N] in
    if negb ((1 <=? blen e) && (blen e <=? 2)) then Panic                     (* assert!((1..=2).contains(&len)) *)
    else if negb (N.eqb (nth (blen e) header 0%N) 0%N) then Panic             (* assert!(header[len] == 0) *)
    else s_backfill s (bid e) (firstn (blen e) header).

(* write / copy: skip empty payloads; assert!(cur <= max) *)
Definition enc_write (e : enc) (s : sink) (payload : list byte) : res (enc * sink) :=
  match payload with
  | [] => Ok (e, s)
  | _ => let c := cur e + length payload in
         if maxc e <? c then Panic
         else Ok ({| maxc := maxc e; cur := c; mid := mid e; bid := bid e; blen := blen e |}, s_push s payload)
  end.
Definition enc_write_partial_stuff (e : enc) (s : sink) : res (enc * sink) :=
  let c := cur e + 1 in
  if maxc e <? c then Panic
  else Ok ({| maxc := maxc e; cur := c; mid := mid e; bid := bid e; blen := blen e |}, s_push s [FE]).

Definition set_mid (e : enc) (m : bool) : enc := {| maxc := maxc e; cur := cur e; mid := m; bid := bid e; blen := blen e |}.

(* consume_once: result = (state, sink, bytes consumed) *)
Definition consume_once_s (ms : nat) (e : enc) (s : sink) (input : list byte) : res (enc * sink * nat) :=
  match input with
  | [] => Panic                                                                 (* assert!(!input.is_empty()) *)
  | b0 :: _ =>
    if negb (cur e + (if mid e then 1 else 0) <? maxc e) then Panic
    else
      let close (e1 : enc) (s1 : sink) (consumed : nat) : res (enc * sink * nat) :=
        match encode_header (cur e1) s1 e1 with
        | Panic => Panic
        | Ok s2 => let '(e3, s3) := enc_new_subsequent s2 ms in Ok (e3, s3, consumed)
        end in
      if mid e && N.eqb b0 FD then close e s 1
      else
        if negb (cur e <? maxc e) then Panic
        else
          match (if mid e then
                   match enc_write_partial_stuff e s with
                   | Panic => Panic
                   | Ok (e1, s1) => if negb (cur e1 <? maxc e1) then Panic else Ok (e1, s1)
                   end
                 else Ok (e, s)) with
          | Panic => Panic
          | Ok (e1, s1) =>
            let remaining := maxc e1 - cur e1 in
            let window := firstn remaining input in
            match window with
            | [] => Panic                                                       (* assert!(!input.is_empty()) *)
            | _ =>
              match find_stuff window with
              | Some idx =>
                match enc_write e1 s1 (firstn idx input) with
                | Panic => Panic | Ok (e2, s2) => close e2 s2 (idx + 2) end
              | None =>
                if length window =? remaining then
                  match enc_write e1 s1 (firstn remaining input) with
                  | Panic => Panic | Ok (e2, s2) => close e2 s2 remaining end
                else
                  let ret := length window in
                  let m' := ends_fe window in
                  let to_copy := if m' then ret - 1 else ret in
                  match enc_write (set_mid e1 m') s1 (firstn to_copy input) with
                  | Panic => Panic
                  | Ok (e2, s2) =>
                    if negb (cur e2 + (if mid e2 then 1 else 0) <? maxc e2) then Panic
                    else Ok (e2, s2, ret)
                  end
              end
            end
          end
  end.

(* the `while !input.is_empty()` loop of encode_borrow / encode_copy, with its two assertions *)
Fixpoint encode_loop_s (fuel : nat) (ms : nat) (e : enc) (s : sink) (input : list byte) : res (enc * sink) :=
  match fuel with
  | O => Ok (e, s)
  | S fuel =>
    match input with
    | [] => Ok (e, s)
    | _ =>
      match consume_once_s ms e s input with
      | Panic => Panic
      | Ok (e', s', c) =>
        if negb (c <=? length input) then Panic
        else if negb ((0 <? c) || (negb (mid e') && mid e)) then Panic
        else encode_loop_s fuel ms e' s' (skipn c input)
      end
    end
  end.
Definition encode_piece_s (ms : nat) (e : enc) (s : sink) (piece : list byte) : res (enc * sink) :=
  encode_loop_s (S (S (length piece))) ms e s piece.

Definition terminate_s (e : enc) (s : sink) : res sink :=
  match (if mid e then enc_write_partial_stuff e s else Ok (e, s)) with
  | Panic => Panic
  | Ok (e1, s1) => if negb (cur e1 <? maxc e1) then Panic else encode_header (cur e1) s1 e1
  end.

(* a history of the Encoder: encode calls (any input method) interleaved with consumer drains *)
Inductive eop := EPiece (p : list byte) | EDrain (k : nat).
Fixpoint run_enc (ms : nat) (e : enc) (s : sink) (ops : list eop) : res (enc * sink) :=
  match ops with
  | [] => Ok (e, s)
  | EPiece p :: r => match encode_piece_s ms e s p with Panic => Panic | Ok (e', s') => run_enc ms e' s' r end
  | EDrain k :: r => run_enc ms e (s_drain s k) r
  end.
Definition pieces_of (ops : list eop) : list (list byte) :=
  flat_map (fun o => match o with EPiece p => [p] | EDrain _ => [] end) ops.

(* Encoder::new ... finish: all bytes the consumer ever gets (drained early ++ left at the end) *)
Definition encoder_output (mi ms : nat) (ops : list eop) : res (option (list byte)) :=
  let '(e0, s0) := enc_new s_empty mi in
  match run_enc ms e0 s0 ops with
  | Panic => Panic
  | Ok (e, s) => match terminate_s e s with
                 | Panic => Panic
                 | Ok s' => Ok (match all_bytes (cells s') with Some r => Some (taken s' ++ r) | None => None end)
                 end
  end.
