(* The memory-level decoder (hcobs/GeoDec.v) refines the byte-level decoder (hcobs/Dec.v): state for state and error for
   error, and the bytes it appends to the geometry-faithful iovec are the bytes Dec.v outputs -- for caller memory, copies
   and anchored input read into the iovec's own arena (sub-slices pushed between copies into the same chunk). *)
From Coq Require Import List NArith Bool Arith Lia.
From WP Require Import hcobs.Stuffing hcobs.EncChunks hcobs.Dec hcobs.EncSink hcobs.SinkSim.
From WP Require Import iovec.Geo iovec.GeoMem iovec.GeoProofs iovec.GeoRefine iovec.GeoHistory iovec.GeoSink iovec.GeoWorld.
From WP Require Import hcobs.GeoEnc hcobs.GeoEncInp hcobs.GeoEncProofs hcobs.GeoDec.
Import ListNotations.
Open Scope nat_scope.

Ltac sp := match goal with |- _ /\ _ => split; [|sp] | _ => idtac end.

Lemma s_push_nil s : s_push s [] = s.
Proof. destruct s as [t c n]. unfold s_push. cbn. now rewrite app_nil_r. Qed.
Lemma s_push_app s a b : s_push (s_push s a) b = s_push s (a ++ b).
Proof. unfold s_push. cbn. now rewrite map_app, app_assoc. Qed.

(* the input slice of the next k bytes pushed (borrowed or copied): sink and input invariant *)
Lemma sim_dpush m s h g (copy : bool) inp p off k h' g' : GS m s h g -> InpOK h g inp p off -> 0 < k -> off + k <= length p ->
  (if copy then push_copy h (firstn k (skipn off p)) g else push h (sub inp off k) g) = Some (h', g') ->
  GS m (s_push s (firstn k (skipn off p))) h' g' /\ InpOK h' g' inp p (off + k).
Proof.
  intros G IO Hk Hle E. destruct (GS_good _ _ _ _ G) as (I & B). destruct copy.
  - split; [eapply geo_sink_push_copy; eauto|].
    apply (InpOK_advance _ _ _ _ off); [|lia]. eapply InpOK_effect; [|exact IO]. eapply effect_push_copy; eauto.
  - destruct (sub_ok h g inp p off k IO Hk Hle) as (Hok & Hd & Hb). split.
    + rewrite <- Hb. eapply geo_sink_push_sl; eauto.
    + unfold sub in E. eapply InpOK_push_sub; eauto.
Qed.

(* ---- one state transition ---- *)
Lemma sim_gd_once copy mi ms inp p st h g off m s r h' g' :
  GS m s h g -> InpOK h g inp p off -> dwf st ->
  gd_once copy mi ms inp p st h g off = Some (r, h', g') ->
  match r, dec_once mi ms st (skipn off p) with
  | Some (st', c), Some (st'', c', out) => st' = st'' /\ c = c' /\ GS m (s_push s out) h' g' /\ InpOK h' g' inp p (off + c)
  | None, None => exists junk, GS m (s_push s junk) h' g' /\ InpOK h' g' inp p off
  | _, _ => False
  end.
Proof.
  intros G IO W E. unfold gd_once in E. unfold dec_once. unfold byte in *.
  destruct (skipn off p) as [|b t] eqn:Ey; [discriminate|]. cbv beta iota in E. rewrite <- Ey in *.
  assert (Hlen : off < length p).
  { destruct (Nat.lt_ge_cases off (length p)) as [H|H]; [exact H|]. rewrite skipn_all2 in Ey by lia. discriminate. }
  destruct st as [|ins|b0|rem term].
  - destruct (mi <? N.to_nat b); inversion E; subst.
    + exists []. rewrite s_push_nil. auto.
    + rewrite s_push_nil. sp; auto. eapply InpOK_advance; eauto. lia.
  - destruct (GS_good _ _ _ _ G) as (I & B).
    assert (HP : exists h1 g1, (if ins then push_copy h (FE :: FD :: @nil N) g else Some (h, g)) = Some (h1, g1) /\
                               GS m (s_push s (if ins then [FE; FD] else [])) h1 g1 /\ InpOK h1 g1 inp p off).
    { destruct ins.
      - cbv beta iota in E. match type of E with context [push_copy ?a ?b ?c] => destruct (push_copy a b c) as [[h1 g1]|] eqn:EP; [|discriminate] end. exists h1, g1. split; [exact EP|]. split.
        + eapply geo_sink_push_copy; eauto.
        + eapply InpOK_effect; [|exact IO]. eapply effect_push_copy; eauto.
      - exists h, g. rewrite s_push_nil. auto. }
    unfold byte in *. destruct HP as (h1 & g1 & EP & G1 & IO1). rewrite EP in E.
    destruct (RADIX <=? N.to_nat b); inversion E; subst.
    + eexists. eauto.
    + sp; auto. eapply InpOK_advance; eauto. lia.
  - destruct (RADIX <=? N.to_nat b); [inversion E; subst; exists []; rewrite s_push_nil; auto|].
    destruct (ms <? N.to_nat b0 + N.to_nat b * RADIX); inversion E; subst.
    + exists []. rewrite s_push_nil. auto.
    + rewrite s_push_nil. sp; auto. eapply InpOK_advance; eauto. lia.
  - cbn [dwf] in W. rewrite skipn_length.
    set (k := Nat.min (length p - off) rem) in *.
    match type of E with match ?x with _ => _ end = _ => destruct x as [[h1 g1]|] eqn:EP; [|discriminate] end.
    inversion E; subst r h1 g1. clear E.
    destruct (sim_dpush m s h g copy inp p off k h' g' G IO ltac:(unfold k; lia) ltac:(unfold k; lia) EP) as (G1 & IO1).
    sp; auto.
Qed.

(* ---- the decode loop ---- *)
Lemma dec_once_wf mi ms st input st' c out : dwf st -> dec_once mi ms st input = Some (st', c, out) -> dwf st'.
Proof.
  intros W E. unfold dec_once in E. destruct input as [|b t]; [inversion E; subst; exact W|].
  destruct st as [|ins|b0|rem term].
  - destruct (mi <? N.to_nat b); inversion E. apply after_header_wf.
  - destruct (RADIX <=? N.to_nat b); inversion E. exact Logic.I.
  - destruct (RADIX <=? N.to_nat b); [discriminate|]. destruct (ms <? _); inversion E. apply after_header_wf.
  - remember (Nat.min (length (b :: t)) rem) as k eqn:Ek. inversion E; subst st' c out. cbn [dwf] in W.
    destruct (k <? rem) eqn:El; cbn [dwf]; auto. apply Nat.ltb_lt in El. lia.
Qed.

Lemma sim_gd_loop copy mi ms inp p : forall fuel st h g off m s r h' g',
  GS m s h g -> InpOK h g inp p off -> dwf st ->
  gd_loop fuel copy mi ms inp p st h g off = Some (r, h', g') ->
  match r, dec_loop fuel mi ms st (skipn off p) with
  | Some st', Some (st'', out) => st' = st'' /\ GS m (s_push s out) h' g'
  | None, None => exists junk, GS m (s_push s junk) h' g'
  | _, _ => False
  end.
Proof.
  induction fuel as [|fuel IH]; intros st h g off m s r h' g' G IO W E; cbn [gd_loop dec_loop] in *; unfold byte in *.
  - inversion E; subst. rewrite s_push_nil. auto.
  - destruct (skipn off p) as [|b t] eqn:Ey; [inversion E; subst; rewrite s_push_nil; auto|]. rewrite <- Ey in *.
    destruct (gd_once copy mi ms inp p st h g off) as [[[r1 h1] g1]|] eqn:E1; [|discriminate].
    pose proof (sim_gd_once copy mi ms inp p st h g off m s r1 h1 g1 G IO W E1) as H1.
    destruct r1 as [[st1 c1]|].
    + destruct (dec_once mi ms st (skipn off p)) as [[[st1' c1'] out1]|] eqn:D1; [|contradiction].
      destruct H1 as (<- & <- & G1 & IO1).
      pose proof (dec_once_wf _ _ _ _ _ _ _ W D1) as W1.
      specialize (IH st1 h1 g1 (off + c1) m (s_push s out1) r h' g' G1 IO1 W1 E).
      rewrite GeoMem.skipn_skipn'.
      destruct r as [st2|]; destruct (dec_loop fuel mi ms st1 (skipn (off + c1) p)) as [[st2' out2]|]; try contradiction.
      * destruct IH as (<- & G2). rewrite s_push_app in G2. auto.
      * destruct IH as (junk & G2). rewrite s_push_app in G2. eauto.
    + destruct (dec_once mi ms st (skipn off p)) as [[[st1' c1'] out1]|] eqn:D1; [contradiction|].
      inversion E; subst. destruct H1 as (junk & G1 & _). eauto.
Qed.

(* ---- one decode / decode_copy call ---- *)
Lemma sim_gd_piece copy mi ms inp p st h g m s st' ok h' g' :
  GS m s h g -> InpOK h g inp p 0 -> sl_bytes h inp = p -> dwf st ->
  gd_piece copy mi ms inp st h g = Some (st', ok, h', g') ->
  match decode_piece mi ms st p with
  | Some (st'', out) => ok = true /\ st' = st'' /\ GS m (s_push s out) h' g'
  | None => ok = false /\ st' = DInit /\ exists junk, GS m (s_push s junk) h' g'
  end.
Proof.
  intros G IO Hp W E. unfold gd_piece in E. rewrite Hp in E. unfold decode_piece. unfold byte in *.
  destruct (gd_loop (S (length p)) copy mi ms inp p st h g 0) as [[[r h1] g1]|] eqn:EL; [|discriminate].
  pose proof (sim_gd_loop copy mi ms inp p _ st h g 0 m s r h1 g1 G IO W EL) as H. cbn [skipn] in H.
  destruct r as [st1|]; destruct (dec_loop (S (length p)) mi ms st p) as [[st2 out]|]; try contradiction; inversion E; subst.
  - destruct H as (<- & G1). auto.
  - auto.
Qed.

(* ---- whole histories: encode ... calls up to the first error, consumer Reads in between ---- *)
Definition dsimple (o : gdop) : Prop :=
  match o with GDBorrow _ | GDCopy _ | GDRd _ => True | GDRead got count => (nlen got <= count)%N | _ => False end.
Definition gdpieces (ops : list gdop) : list (list byte) :=
  flat_map (fun o => match o with GDBorrow p | GDCopy p => [p] | GDRead got _ => [got] | _ => [] end) ops.

(* run a history up to and including the first decode call that returns Err: (state, every call Ok?, heap, iovec, bytes
   the Reads returned) *)
Fixpoint gd_run (mi ms : nat) (st : dstate) (h : heap) (g : giov) (ops : list gdop) : option (dstate * bool * heap * giov * list N) :=
  match ops with
  | [] => Some (st, true, h, g, [])
  | o :: r =>
    match gd_step mi ms st h g o with
    | None => None
    | Some (st1, h1, g1, ret) =>
      match o, ret with
      | GDRd _, _ => match gd_run mi ms st1 h1 g1 r with
                     | Some (st2, ok, h2, g2, out) => Some (st2, ok, h2, g2, ret ++ out)
                     | None => None end
      | GDConsume _, _ => gd_run mi ms st1 h1 g1 r
      | _, okflag :: _ => if (okflag =? 0)%N then Some (st1, false, h1, g1, []) else gd_run mi ms st1 h1 g1 r
      | _, [] => None
      end
    end
  end.

Lemma fold_drain_nid' : forall ks s, nid (fold_left s_drain ks s) = nid s.
Proof. induction ks as [|k ks IH]; intros s; cbn [fold_left]; [reflexivity|]. rewrite IH. reflexivity. Qed.

(* a sink that only ever receives bytes: what was drained followed by what is left is everything pushed *)
Definition bytes_of_sink (s : sink) : option (list byte) :=
  match EncSink.all_bytes (cells s) with Some r => Some (taken s ++ r) | None => None end.
Lemma all_bytes_app_bytes : forall cs r bs, EncSink.all_bytes cs = Some r -> EncSink.all_bytes (cs ++ map CB bs) = Some (r ++ bs).
Proof.
  induction cs as [|c cs IH]; intros r bs H; cbn [EncSink.all_bytes app] in *.
  - inversion H; subst. cbn [app]. apply EncSinkProofs.all_bytes_map.
  - destruct c as [b|id]; [|discriminate]. destruct (EncSink.all_bytes cs) as [r0|] eqn:E0; [|discriminate]. inversion H; subst.
    rewrite (IH r0 bs eq_refl). reflexivity.
Qed.
Lemma bytes_push s x bs : bytes_of_sink s = Some x -> bytes_of_sink (s_push s bs) = Some (x ++ bs).
Proof.
  unfold bytes_of_sink, s_push. cbn [cells taken]. destruct (EncSink.all_bytes (cells s)) as [r|] eqn:E; [|discriminate].
  intros H; inversion H; subst. rewrite (all_bytes_app_bytes _ _ bs E), app_assoc. reflexivity.
Qed.
Lemma all_bytes_stable : forall cs r, EncSink.all_bytes cs = Some r -> stable cs = r /\ cs = map CB r.
Proof.
  induction cs as [|c cs IH]; intros r H; cbn [EncSink.all_bytes] in H; [inversion H; auto|].
  destruct c as [b|id]; [|discriminate]. destruct (EncSink.all_bytes cs) as [r0|] eqn:E0; [|discriminate]. inversion H; subst.
  destruct (IH r0 eq_refl) as (A & B). cbn [stable map]. rewrite A, <- B. auto.
Qed.
Lemma bytes_drain s x k : bytes_of_sink s = Some x -> bytes_of_sink (s_drain s k) = Some x.
Proof.
  unfold bytes_of_sink, s_drain. cbn [cells taken]. destruct (EncSink.all_bytes (cells s)) as [r|] eqn:E; [|discriminate].
  intros H; inversion H; subst. destruct (all_bytes_stable _ _ E) as (St & Ec). rewrite St.
  set (n := Nat.min k (length r)). rewrite Ec at 1. rewrite skipn_map, EncSinkProofs.all_bytes_map.
  rewrite <- app_assoc, firstn_skipn. reflexivity.
Qed.
Lemma bytes_fold_drain : forall ks s x, bytes_of_sink s = Some x -> bytes_of_sink (fold_left s_drain ks s) = Some x.
Proof. induction ks as [|k ks IH]; intros s x H; cbn [fold_left]; [exact H|]. apply IH. now apply bytes_drain. Qed.

Lemma sim_gd_run mi ms : forall ops st h g m s x st' ok h' g' out,
  Forall dsimple ops -> GS m s h g -> dwf st -> bytes_of_sink s = Some x ->
  gd_run mi ms st h g ops = Some (st', ok, h', g', out) ->
  exists s', GS m s' h' g' /\ taken s' = taken s ++ out /\
    match decode_pieces_from mi ms st (gdpieces ops) with
    | Some (st'', dout) => ok = true /\ st' = st'' /\ bytes_of_sink s' = Some (x ++ dout)
    | None => ok = false
    end.
Proof.
  induction ops as [|o r IH]; intros st h g m s x st' ok h' g' out Hs G W HB E; cbn [gd_run] in E.
  - inversion E; subst. exists s. cbn [gdpieces flat_map decode_pieces_from]. rewrite !app_nil_r. auto.
  - inversion Hs as [|? ? Ho Hr]; subst.
    destruct (gd_step mi ms st h g o) as [[[[st1 h1] g1] ret]|] eqn:ES; [|discriminate].
    (* a decode call on any input memory *)
    assert (Hpiece : forall copy p h0 g0 inp, GS m s h0 g0 -> InpOK h0 g0 inp p 0 -> sl_bytes h0 inp = p ->
      forall okp hx gx, gd_piece copy mi ms inp st h0 g0 = Some (st1, okp, hx, gx) ->
      (forall gy, GS m (match decode_piece mi ms st p with Some (_, o1) => s_push s o1 | None => s end) hx gy \/ True) ->
      match decode_piece mi ms st p with
      | Some (st'', o1) => okp = true /\ st1 = st'' /\ GS m (s_push s o1) hx gx /\ dwf st''
      | None => okp = false /\ exists junk, GS m (s_push s junk) hx gx
      end).
    { intros copy p h0 g0 inp G0 IO0 Hb0 okp hx gx EP _.
      pose proof (sim_gd_piece copy mi ms inp p st h0 g0 m s st1 okp hx gx G0 IO0 Hb0 W EP) as H.
      destruct (decode_piece mi ms st p) as [[st2 o1]|] eqn:DP.
      - destruct H as (A & B & C). sp; auto.
        rewrite decode_piece_run in DP by exact W. eapply run_wf; eauto.
      - destruct H as (A & _ & C). auto. }
    assert (Hcont : forall p okp hx gx,
      match decode_piece mi ms st p with
      | Some (st'', o1) => okp = true /\ st1 = st'' /\ GS m (s_push s o1) hx gx /\ dwf st''
      | None => okp = false /\ exists junk, GS m (s_push s junk) hx gx
      end ->
      (if (zb okp =? 0)%N then Some (st1, false, hx, gx, []) else gd_run mi ms st1 hx gx r) = Some (st', ok, h', g', out) ->
      exists s', GS m s' h' g' /\ taken s' = taken s ++ out /\
        match decode_pieces_from mi ms st (p :: gdpieces r) with
        | Some (st'', dout) => ok = true /\ st' = st'' /\ bytes_of_sink s' = Some (x ++ dout)
        | None => ok = false
        end).
    { intros p okp hx gx H E'. cbn [decode_pieces_from].
      destruct (decode_piece mi ms st p) as [[st2 o1]|].
      - destruct H as (-> & -> & G1 & W1). cbn in E'.
        destruct (IH st2 hx gx m (s_push s o1) (x ++ o1) st' ok h' g' out Hr G1 W1 (bytes_push s x o1 HB) E') as (s' & G' & T' & M').
        exists s'. split; [exact G'|]. split; [exact T'|].
        destruct (decode_pieces_from mi ms st2 (gdpieces r)) as [[st3 o2]|]; [|exact M'].
        rewrite app_assoc. exact M'.
      - destruct H as (-> & junk & G1). cbn in E'. inversion E'; subst. exists (s_push s junk). rewrite app_nil_r. auto. }
    destruct o as [p|p|got count|k|n]; cbn [dsimple] in Ho; try contradiction; cbn [gd_step] in ES.
    + destruct (gd_piece false mi ms (SExt p) st h g) as [[[[sa oka] ha] ga]|] eqn:EP; [|discriminate]. inversion ES; subst sa ha ga ret; clear ES.
      cbn [gdpieces flat_map app]. fold (gdpieces r).
      apply (Hcont p oka h1 g1); [|exact E].
      exact (Hpiece false p h g (SExt p) G (InpOK_ext h g p 0) eq_refl oka h1 g1 EP (fun _ => or_intror Logic.I)).
    + destruct (gd_piece true mi ms (SExt p) st h g) as [[[[sa oka] ha] ga]|] eqn:EP; [|discriminate]. inversion ES; subst sa ha ga ret; clear ES.
      cbn [gdpieces flat_map app]. fold (gdpieces r).
      apply (Hcont p oka h1 g1); [|exact E].
      exact (Hpiece true p h g (SExt p) G (InpOK_ext h g p 0) eq_refl oka h1 g1 EP (fun _ => or_intror Logic.I)).
    + unfold gd_read in ES. destruct (as_read_n h (gcache_ g) got count) as [[[hr kr] a]|] eqn:EA; [|discriminate].
      destruct (gd_anchored mi ms a st hr (set_cache kr g)) as [[[[sa oka] ha] ga]|] eqn:EAn; [|discriminate].
      inversion ES; subst sa ha ga ret; clear ES.
      destruct (sim_read_n m s h g got count hr kr a G EA) as (Gr & Hpos).
      cbn [gdpieces flat_map app]. fold (gdpieces r).
      apply (Hcont got oka h1 g1); [|exact E].
      unfold gd_anchored in EAn. destruct (as_len a =? 0)%N eqn:E0.
      * inversion EAn; subst st1 oka h1 g1; clear EAn.
        assert (Hgot : got = []).
        { unfold as_read_n in EA. destruct (arena_read_n h (gcache_ g) got count) as [[[[h2 k2] sl] an]|] eqn:EAr; [|discriminate].
          inversion EA; subst hr kr a. unfold as_len in E0. cbn [as_sl] in E0. apply N.eqb_eq in E0.
          destruct (GS_good _ _ _ _ G) as (I & B).
          destruct (N.eq_dec count 0) as [->|Hnz]; [apply nlen_zero; lia|].
          assert (Hcp : (0 < count)%N) by lia.
          destruct (arena_read_n_spec _ _ _ _ _ _ _ _ (gi_cache h g I) (gi_heap h g I) Hcp Ho EAr)
            as (kk & _ & _ & _ & _ & _ & _ & Esl & _). subst sl. cbn [sl_len] in E0. now apply nlen_zero. }
        subst got. cbn. rewrite s_push_nil. auto.
      * destruct (gd_piece false mi ms (as_sl a) st hr (set_cache kr g)) as [[[[sp okp] hp] gp]|] eqn:EP; [|discriminate].
        inversion EAn; subst st1 oka h1 g1; clear EAn.
        destruct (Hpos eq_refl) as (IOr & Hbr).
        pose proof (Hpiece false got hr (set_cache kr g) (as_sl a) Gr IOr Hbr okp hp gp EP (fun _ => or_intror Logic.I)) as H.
        destruct (decode_piece mi ms st got) as [[st2 o1]|].
        -- destruct H as (A & B & C & D). sp; auto. now apply GS_push_anchor.
        -- destruct H as (A & junk & C). split; [exact A|]. exists junk. now apply GS_push_anchor.
    + destruct (read h n g) as [[g1' bs]|] eqn:ERd; [|discriminate]. inversion ES; subst st1 h1 g1' ret; clear ES.
      destruct (gd_run mi ms st h g1 r) as [[[[[st2 ok2] h2] g2] out2]|] eqn:ER2; [|discriminate]. inversion E; subst; clear E.
      destruct (geo_sink_read m s h g n g1 bs G ERd) as (ks & G1 & T1).
      destruct (IH st h g1 m _ x st' ok h' g' out2 Hr G1 W (bytes_fold_drain ks s x HB) ER2) as (s' & G' & T' & M').
      exists s'. split; [exact G'|]. split; [rewrite T', T1, app_assoc; reflexivity|].
      cbn [gdpieces flat_map app]. fold (gdpieces r). exact M'.
Qed.

(* C07 at memory level: the decoder writing into the geometry-faithful iovec accepts exactly what the byte-level decoder
   accepts, in the same state, and what the consumer's Reads returned followed by the bytes left in the iovec is the
   byte-level decoder's output *)
Theorem gdec_refines mi ms ops st ok h g out :
  Forall dsimple ops ->
  gd_run mi ms DInit [] empty_iov ops = Some (st, ok, h, g, out) ->
  match decode_pieces_from mi ms DInit (gdpieces ops) with
  | Some (st', dout) => ok = true /\ st = st' /\ out ++ Geo.all_bytes h g = dout
  | None => ok = false
  end.
Proof.
  intros Hs E.
  destruct (sim_gd_run mi ms ops DInit [] empty_iov (fun x => x) s_empty [] st ok h g out Hs (GS_empty _) Logic.I eq_refl E)
    as (s' & G' & T' & M').
  destruct (decode_pieces_from mi ms DInit (gdpieces ops)) as [[st2 dout]|]; [|exact M'].
  destruct M' as (A & B & C). split; [exact A|]. split; [exact B|].
  cbn [taken s_empty app] in T', C. unfold bytes_of_sink in C.
  destruct (EncSink.all_bytes (cells s')) as [r|] eqn:EB; [|discriminate]. inversion C as [C']. rewrite T' in C'.
  destruct G' as (I & p & SRf & Rf & PI). rewrite (R_all_bytes h g p Rf).
  destruct (all_bytes_stable _ _ EB) as (_ & Ec).
  pose proof (sr_cells _ _ _ SRf) as HC. rewrite Ec, map_ren_bytes in HC. unfold Pipe.abs in HC. symmetry in HC.
  rewrite (GeoEncProofs.abs_bytes _ _ HC). rewrite T'. reflexivity.
Qed.

(* ---- the decoder never panics on inputs below 2^62 bytes ---- *)
From WP Require Import iovec.GeoNoPanic.
From WP Require hcobs.GeoChunker.
Open Scope nat_scope.

Lemma gd_once_no_panic copy mi ms inp p st h g off m s :
  GS m s h g -> InpOK h g inp p off -> dwf st -> off < length p -> (nlen p <= BIG)%N ->
  exists r, gd_once copy mi ms inp p st h g off = Some r.
Proof.
  intros G IO W Hlen Hbig. destruct (GS_good _ _ _ _ G) as (I & B). unfold gd_once. unfold byte in *.
  destruct (skipn off p) as [|b t] eqn:Ey.
  { exfalso. apply (f_equal (@length _)) in Ey. rewrite skipn_length in Ey. cbn in Ey. lia. }
  cbv beta iota. rewrite <- ?Ey.
  destruct st as [|ins|b0|rem term].
  - destruct (mi <? N.to_nat b); eauto.
  - destruct ins.
    + cbv beta iota. match goal with |- context [push_copy ?a ?b ?c] =>
        destruct (push_copy_no_panic a b c I) as (h1 & g1 & ->); [unfold BIG, nlen; cbn; lia|] end.
      destruct (RADIX <=? N.to_nat b); eauto.
    + destruct (RADIX <=? N.to_nat b); eauto.
  - destruct (RADIX <=? N.to_nat b); [eauto|]. destruct (ms <? N.to_nat b0 + N.to_nat b * RADIX); eauto.
  - cbn [dwf] in W. set (k := Nat.min (length p - off) rem).
    assert (Hk : 0 < k /\ off + k <= length p) by (unfold k; lia).
    destruct copy.
    + destruct (push_copy_no_panic h (firstn k (skipn off p)) g I) as (h1 & g1 & ->); [|eauto].
      unfold nlen in *. rewrite firstn_length, skipn_length. lia.
    + destruct (sub_ok h g inp p off k IO (proj1 Hk) (proj2 Hk)) as (Hok & _ & Hb).
      destruct (push_no_panic h (sub inp off k) g I) as (h1 & g1 & ->); [|eauto].
      rewrite <- (sl_len_bytes h _ Hok), Hb. unfold nlen in *. rewrite firstn_length, skipn_length. lia.
Qed.

Lemma gd_loop_no_panic copy mi ms inp p : (nlen p <= BIG)%N -> forall fuel st h g off m s,
  GS m s h g -> InpOK h g inp p off -> dwf st -> exists r, gd_loop fuel copy mi ms inp p st h g off = Some r.
Proof.
  intros Hbig. induction fuel as [|fuel IH]; intros st h g off m s G IO W; cbn [gd_loop]; unfold byte in *; [eauto|].
  destruct (skipn off p) as [|b t] eqn:Ey; [eauto|].
  assert (Hlen : off < length p).
  { destruct (Nat.lt_ge_cases off (length p)) as [H|H]; [exact H|]. rewrite skipn_all2 in Ey by lia. discriminate. }
  destruct (gd_once_no_panic copy mi ms inp p st h g off m s G IO W Hlen Hbig) as ([[r1 h1] g1] & E1). rewrite E1.
  pose proof (sim_gd_once copy mi ms inp p st h g off m s r1 h1 g1 G IO W E1) as S1.
  destruct r1 as [[st1 c1]|]; [|eauto].
  destruct (dec_once mi ms st (skipn off p)) as [[[st1' c1'] out1]|] eqn:D1; [|contradiction].
  destruct S1 as (<- & <- & G1 & IO1). exact (IH st1 h1 g1 (off + c1) m (s_push s out1) G1 IO1 (dec_once_wf _ _ _ _ _ _ _ W D1)).
Qed.

Lemma gd_piece_no_panic copy mi ms inp p st h g m s :
  GS m s h g -> InpOK h g inp p 0 -> sl_bytes h inp = p -> dwf st -> (nlen p <= BIG)%N ->
  exists r, gd_piece copy mi ms inp st h g = Some r.
Proof.
  intros G IO Hp W Hbig. unfold gd_piece. rewrite Hp.
  destruct (gd_loop_no_panic copy mi ms inp p Hbig (S (length p)) st h g 0 m s G IO W) as ([[r h1] g1] & ->).
  destruct r; eauto.
Qed.

(* histories of decode / decode_copy / decode_read calls with less than 2^62 bytes per call: no assertion of the decoder,
   of the iovec or of the arena fires *)
Definition dsmall (o : gdop) : Prop :=
  match o with
  | GDBorrow p | GDCopy p => (nlen p <= BIG)%N
  | GDRead got count => (nlen got <= count)%N /\ (count <= BIG)%N
  | _ => False
  end.

Theorem gd_run_no_panic mi ms : forall ops st h g m s, Forall dsmall ops -> GS m s h g -> dwf st ->
  exists r, gd_run mi ms st h g ops = Some r.
Proof.
  induction ops as [|o r IH]; intros st h g m s Hs G W; cbn [gd_run]; [eauto|].
  inversion Hs as [|? ? Ho Hr]; subst.
  (* one decode call on any input memory, then the rest *)
  assert (Hgo : forall copy p h0 g0 inp (post : giov -> giov), GS m s h0 g0 -> InpOK h0 g0 inp p 0 -> sl_bytes h0 inp = p -> (nlen p <= BIG)%N ->
    (forall m1 s1 h1 g1, GS m1 s1 h1 g1 -> GS m1 s1 h1 (post g1)) ->
    exists st1 okp h1 g1, gd_piece copy mi ms inp st h0 g0 = Some (st1, okp, h1, g1) /\
      (okp = true -> exists m1 s1, GS m1 s1 h1 (post g1) /\ dwf st1)).
  { intros copy p h0 g0 inp post G0 IO0 Hb0 Hbig Hpost.
    destruct (gd_piece_no_panic copy mi ms inp p st h0 g0 m s G0 IO0 Hb0 W Hbig) as ([[[st1 okp] h1] g1] & EP).
    exists st1, okp, h1, g1. split; [exact EP|]. intros ->.
    pose proof (sim_gd_piece copy mi ms inp p st h0 g0 m s st1 true h1 g1 G0 IO0 Hb0 W EP) as H.
    destruct (decode_piece mi ms st p) as [[st2 o1]|] eqn:DP.
    - destruct H as (_ & -> & G1). exists m, (s_push s o1). split; [now apply Hpost|].
      rewrite decode_piece_run in DP by exact W. eapply run_wf; eauto.
    - destruct H as (H & _). discriminate. }
  destruct o as [p|p|got count|k|n]; cbn [dsmall] in Ho; try contradiction; cbn [gd_step].
  - destruct (Hgo false p h g (SExt p) (fun x => x) G (InpOK_ext h g p 0) eq_refl Ho (fun _ _ _ _ X => X)) as (st1 & okp & h1 & g1 & -> & Hn).
    destruct okp; cbn [zb N.eqb]; [|eauto]. destruct (Hn eq_refl) as (m1 & s1 & G1 & W1). exact (IH st1 h1 g1 m1 s1 Hr G1 W1).
  - destruct (Hgo true p h g (SExt p) (fun x => x) G (InpOK_ext h g p 0) eq_refl Ho (fun _ _ _ _ X => X)) as (st1 & okp & h1 & g1 & -> & Hn).
    destruct okp; cbn [zb N.eqb]; [|eauto]. destruct (Hn eq_refl) as (m1 & s1 & G1 & W1). exact (IH st1 h1 g1 m1 s1 Hr G1 W1).
  - destruct Ho as (Hle & Hbig). unfold gd_read.
    destruct (GeoChunker.as_read_n_no_panic h (gcache_ g) got count Hle Hbig) as ([[hr kr] a] & EA). rewrite EA.
    destruct (sim_read_n m s h g got count hr kr a G EA) as (Gr & Hpos).
    unfold gd_anchored. destruct (as_len a =? 0)%N eqn:E0.
    + cbn [zb N.eqb]. exact (IH st hr (set_cache kr g) m s Hr Gr W).
    + destruct (Hpos eq_refl) as (IOr & Hbr).
      destruct (Hgo false got hr (set_cache kr g) (as_sl a) (push_anchor (as_anchor a)) Gr IOr Hbr (N.le_trans _ _ _ Hle Hbig)
                  (fun m1 s1 h1 g1 X => GS_push_anchor m1 s1 h1 g1 (as_anchor a) X)) as (st1 & okp & h1 & g1 & -> & Hn).
      destruct okp; cbn [zb N.eqb]; [|eauto]. destruct (Hn eq_refl) as (m1 & s1 & G1 & W1). exact (IH st1 h1 _ m1 s1 Hr G1 W1).
Qed.
