From Coq Require Import List NArith Lia Bool Arith ZifyNat ZifyN ZifyBool.
Import ListNotations.
From WP Require Import hcobs.Stuffing hcobs.EncChunks hcobs.EncChunksProofs hcobs.Dec.

(* C06, record level: StreamReader feeds the Data pieces of one record to a Decoder one by one, gives up on the
   first decoding error or as soon as the judge sees more than `max` decoded bytes, and at the end accepts the
   record iff the decoder terminates.  This equals decoding the whole segment at once and filtering by size,
   whatever the block size cut the segment into. *)
Section Record.
Variables mi ms : nat.
Variable max : N.   (* max_record_size: a usize, kept in N *)

Definition decode_seg (seg : list byte) : option (list byte) :=
  match run mi ms DInit seg with
  | Some (st, out) => if dterminate st then Some out else None
  | None => None
  end.

Definition emit (seg : list byte) : option (list byte) :=
  match decode_seg seg with Some m => if (N.of_nat (length m) <=? max)%N then Some m else None | None => None end.

(* per-record state of next_record_bytes: still decoding (decoder state, output so far), or skipping *)
Inductive rstate := Dec (ds : dstate) (out : list byte) | SkipR.

Definition feed (r : rstate) (piece : list byte) : rstate :=
  match r with
  | SkipR => SkipR
  | Dec ds out =>
    match decode_piece mi ms ds piece with
    | None => SkipR                                         (* decode_anchored(..).is_err() *)
    | Some (ds', o) => if (max <? N.of_nat (length (out ++ o)))%N then SkipR   (* judge: total_size() > max_record_size *)
                       else Dec ds' (out ++ o)
    end
  end.

Definition finish (r : rstate) : option (list byte) :=
  match r with Dec ds out => if dterminate ds then Some out else None | SkipR => None end.

Definition record_result (pieces : list (list byte)) : option (list byte) :=
  finish (fold_left feed pieces (Dec DInit [])).

(* ---- facts about run ---- *)
Lemma run_prefix_fail st a b : run mi ms st a = None -> run mi ms st (a ++ b) = None.
Proof. intros H. now rewrite run_app, H. Qed.

Lemma run_prefix_out st a b s1 o1 : run mi ms st a = Some (s1, o1) ->
  match run mi ms st (a ++ b) with Some (_, o) => exists o2, o = o1 ++ o2 | None => True end.
Proof.
  intros H. rewrite run_app, H. cbn [bind2]. destruct (run mi ms s1 b) as [[s2 o2]|]; [eexists; reflexivity|exact I].
Qed.

(* once skipping, always skipping *)
Lemma fold_skip pieces : fold_left feed pieces SkipR = SkipR.
Proof. induction pieces; cbn; auto. Qed.

(* a segment whose prefix already fails to decode, or already decodes to too much, is never emitted *)
Definition hopeless (acc : list byte) : Prop := forall ext, emit (acc ++ ext) = None.

Lemma hopeless_fail acc : run mi ms DInit acc = None -> hopeless acc.
Proof. intros H ext. unfold emit, decode_seg. now rewrite (run_prefix_fail _ _ ext H). Qed.

Lemma hopeless_big acc s o : run mi ms DInit acc = Some (s, o) -> (max < N.of_nat (length o))%N -> hopeless acc.
Proof.
  intros H Hb ext. unfold emit, decode_seg. pose proof (run_prefix_out DInit acc ext s o H) as P.
  destruct (run mi ms DInit (acc ++ ext)) as [[s2 o2]|]; [|reflexivity].
  destruct P as (o3 & ->). destruct (dterminate s2); [|reflexivity].
  assert ((N.of_nat (length (o ++ o3)) <=? max)%N = false) as -> by (apply N.leb_gt; rewrite app_length; lia). reflexivity.
Qed.

(* the invariant of the per-record loop *)
Definition Rinv (r : rstate) (acc : list byte) : Prop :=
  match r with
  | Dec ds out => dwf ds /\ run mi ms DInit acc = Some (ds, out) /\ (N.of_nat (length out) <= max)%N
  | SkipR => hopeless acc
  end.

Lemma feed_inv r acc piece : Rinv r acc -> Rinv (feed r piece) (acc ++ piece).
Proof.
  destruct r as [ds out|]; cbn [Rinv feed].
  - intros (W & R & L). rewrite decode_piece_run by exact W.
    destruct (run mi ms ds piece) as [[ds' o]|] eqn:P.
    + assert (R' : run mi ms DInit (acc ++ piece) = Some (ds', out ++ o)) by (rewrite run_app, R; cbn [bind2]; now rewrite P).
      destruct (max <? N.of_nat (length (out ++ o)))%N eqn:B.
      * apply N.ltb_lt in B. cbn [Rinv]. eapply hopeless_big; eauto.
      * apply N.ltb_ge in B. cbn [Rinv]. split; [eapply run_wf; eauto|]. split; auto.
    + cbn [Rinv]. apply hopeless_fail. rewrite run_app, R. cbn [bind2]. now rewrite P.
  - intros H ext. rewrite <- app_assoc. apply H.
Qed.

Lemma fold_inv pieces : forall r acc, Rinv r acc -> Rinv (fold_left feed pieces r) (acc ++ concat pieces).
Proof.
  induction pieces as [|p ps IH]; intros r acc H; cbn [fold_left concat]; [now rewrite app_nil_r|].
  rewrite app_assoc. apply IH. now apply feed_inv.
Qed.

(* ---- the record-level theorem: any cutting of a segment into Data pieces gives the same verdict ---- *)
Theorem C06_record pieces : record_result pieces = emit (concat pieces).
Proof.
  unfold record_result. pose proof (fold_inv pieces (Dec DInit []) []) as H. cbn [app] in H.
  specialize (H ltac:(cbn; repeat split; auto; lia)).
  destruct (fold_left feed pieces (Dec DInit [])) as [ds out|]; cbn [Rinv finish] in *.
  - destruct H as (_ & R & L). unfold emit, decode_seg. rewrite R.
    destruct (dterminate ds); [|reflexivity]. apply N.leb_le in L. now rewrite L.
  - specialize (H []). rewrite app_nil_r in H. now rewrite H.
Qed.

Corollary C06_record_block_size_independent p1 p2 : concat p1 = concat p2 -> record_result p1 = record_result p2.
Proof. intros E. now rewrite !C06_record, E. Qed.
End Record.
Print Assumptions C06_record.
