(* C06: faithful model of StreamReader::next_record_bytes (hcobs/src/stream_reader.rs) over the
   chunk sequence that the StreamChunker produces (Chunker.v proves what that sequence is, for
   every stream, read schedule and block size), with the standard judge `chunk_judge`, and the
   specification `spec_records`.  No proofs here. *)
From Coq Require Import List NArith Bool Arith.
From WP Require Import hcobs.Stuffing hcobs.EncChunks hcobs.Dec hcobs.Chunker hcobs.ReaderRecord.
Import ListNotations.

Section Reader.
Variables mi ms : nat.
Variable max : N.       (* max_record_size *)
Variable limit : N.     (* limit_offset, u64::MAX when None *)

Inductive jres := KeepGoing | SkipRecord | Stop.
(* chunk_judge(max, limit)(range, iovec) *)
Definition chunk_judge (range_start : nat) (decoded_size : nat) : jres :=
  if (limit <=? N.of_nat range_start)%N then Stop
  else if (max <? N.of_nat decoded_size)%N then SkipRecord
  else KeepGoing.

(* state of the inner loop: SkipSentinel / DecodeRecord (decoder state, output so far) / SkipRecord
   (after a decoding error the decoder's iovec still holds `junk` bytes the judge can see) *)
Inductive lstate := LSkipSentinel | LDecode (ds : dstate) (out : list byte) | LSkip (junk : nat).

Definition record := (list byte * nat * nat)%type.     (* decoded bytes, range start, range end *)
Inductive outcome := ORecord (r : record) | ONone | OPanic.

Definition size_of (st : lstate) : nat :=
  match st with LSkipSentinel => 0 | LDecode _ out => length out | LSkip j => j end.

(* what happens when the record ends (sentinel, or EOF with a non-empty range):
   Some r = returned; None = `continue 'retry` *)
Definition finish_record (st : lstate) (rs re : nat) : option record :=
  match st with
  | LDecode ds out => if dterminate ds then Some (out, rs, re) else None
  | _ => None
  end.

(* one call of next_record_bytes, as a walk over the chunks still to be pumped.
   Returns the outcome, the chunks left for later calls, and last_sentinel_offset.
   After `continue 'retry` the walk goes on with a fresh SkipSentinel state. *)
Fixpoint next_record (cs : list chunk) (st : lstate) (rs re : nat) (lso : nat) : outcome * list chunk * nat :=
  (* assert_eq!(range.is_empty(), state == State::SkipSentinel) *)
  if negb (Bool.eqb (rs =? re) (match st with LSkipSentinel => true | _ => false end)) then (OPanic, cs, lso)
  else
  match cs with
  | [] => (ONone, [], lso)                        (* cannot happen: every pump sequence ends with Eof *)
  | Eof :: _ =>
    if rs =? re then (ONone, cs, lso)
    else match finish_record st rs re with
         | Some r => (ORecord r, cs, lso)
         | None => (ONone, cs, lso)               (* retry: the next pump is Eof again, with an empty range *)
         end
  | Sentinel off :: t =>
    if off <? 2 then (OPanic, cs, lso)            (* assert!(offset >= 2) *)
    else
      let lso' := off - 2 in
      match st with
      | LSkipSentinel =>
        match chunk_judge off 0 with
        | KeepGoing => next_record t LSkipSentinel off off lso'
        | SkipRecord => next_record t (LSkip 0) off off lso'   (* trips the assertion on the next iteration *)
        | Stop => (ONone, t, lso')
        end
      | _ =>
        if rs =? re then (OPanic, cs, lso)        (* assert_ne!(&range.start, &range.end) *)
        else match finish_record st rs re with
             | Some r => (ORecord r, t, lso')
             | None => next_record t LSkipSentinel 0 0 lso'
             end
      end
  | Data off d :: t =>
    match d with
    | [] => (OPanic, cs, lso)                      (* assert!(!slice.slice().is_empty()) *)
    | _ =>
      let '(st1, rs1) := match st with
                         | LSkipSentinel => (LDecode DInit [], off - length d)
                         | _ => (st, rs)
                         end in
      let st2 := match st1 with
                 | LDecode ds out =>
                   match decode_piece mi ms ds d with
                   | Some (ds', o) => LDecode ds' (out ++ o)
                   | None => LSkip (length out)      (* what was decoded before the error stays in the iovec *)
                   end
                 | _ => st1
                 end in
      match chunk_judge rs1 (size_of st2) with
      | KeepGoing => next_record t st2 rs1 off lso
      | SkipRecord => next_record t (LSkip (size_of st2)) rs1 off lso
      | Stop => (ONone, t, lso)
      end
    end
  end.

(* successive calls until the first None (then two more calls, which must also return None) *)
Fixpoint all_records (fuel : nat) (cs : list chunk) (lso : nat) : list record * bool * nat :=
  match fuel with
  | O => ([], false, lso)
  | S fuel =>
    match next_record cs LSkipSentinel 0 0 lso with
    | (ORecord r, t, lso') => let '(rs, ok, l) := all_records fuel t lso' in (r :: rs, ok, l)
    | (ONone, t, lso') =>
      (* the stream stays ended *)
      match next_record t LSkipSentinel 0 0 lso' with
      | (ONone, t2, lso2) => ([], true, lso2)
      | _ => ([], false, lso')
      end
    | (OPanic, _, _) => ([], false, lso)
    end
  end.

(* ---- specification ---- *)
(* the maximal FE FD-free segments of a stream with their start offsets, scanning left to right *)
Fixpoint segments_from (fuel : nat) (off : nat) (s : list byte) : list (nat * list byte) :=
  match fuel with
  | O => [(off, s)]
  | S fuel =>
    match find_stuff s with
    | Some i => (off, firstn i s) :: segments_from fuel (off + i + 2) (skipn (i + 2) s)
    | None => [(off, s)]
    end
  end.
Definition segments (s : list byte) : list (nat * list byte) := segments_from (length s) 0 s.

(* keep the segments that are valid encodings no larger than max; stop at the first segment that
   starts at or after the limit; empty segments are delimiters, not records *)
Fixpoint spec_walk (segs : list (nat * list byte)) : list record :=
  match segs with
  | [] => []
  | (st, seg) :: r =>
    if (limit <=? N.of_nat st)%N then []
    else match seg with
         | [] => spec_walk r
         | _ => match emit mi ms max seg with
                | Some m => (m, st, st + length seg) :: spec_walk r
                | None => spec_walk r
                end
         end
  end.
Definition spec_records (s : list byte) : list record := spec_walk (segments s).
End Reader.
