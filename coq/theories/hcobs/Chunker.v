From Coq Require Import List NArith Lia Bool Arith.
Import ListNotations.
From WP Require Import hcobs.Stuffing hcobs.EncChunks hcobs.EncChunksProofs.

(* Reduced faithful model of StreamChunker::pump (after the F1 repair: a block of fresh bytes is requested
   on top of the carried-over ones).  read_n's schedule-independence (C17) is used as a fact: a refill that
   asks for `want >= |carry|` bytes returns min want (|carry| + |rest|) bytes of carry ++ rest. *)

Inductive chunk := Sentinel (off : nat) | Eof | Data (off : nat) (d : list byte).
Record cst := { buf : list byte; offset : nat; rest : list byte }.

Definition refill (want : nat) (carry rest : list byte) : list byte * list byte :=
  let all := carry ++ rest in
  (firstn want all, skipn want all).

Definition starts_stuff (l : list byte) : bool := stuff_head l.

(* the refill loop; fuel 3 is enough (see pump_fill_progress) *)
Fixpoint fill (fuel : nat) (bs : nat) (s : cst) : cst + (chunk * cst) :=
  match fuel with
  | O => inl s
  | S fuel =>
    if 2 <=? length (buf s) then inl s
    else
      let init := length (buf s) in
      let '(b', r') := refill (init + Nat.max bs 1) (buf s) (rest s) in
      if length b' =? init then
        (if init =? 0 then inr (Eof, {| buf := []; offset := offset s; rest := r' |})
         else inr (Data (offset s + length b') b', {| buf := []; offset := offset s + length b'; rest := r' |}))
      else fill fuel bs {| buf := b'; offset := offset s; rest := r' |}
  end.

Definition pump (bs : nat) (s : cst) : chunk * cst :=
  match fill 3 bs s with
  | inr r => r
  | inl s1 =>
    let b := buf s1 in
    if starts_stuff b then (Sentinel (offset s1 + 2), {| buf := skipn 2 b; offset := offset s1 + 2; rest := rest s1 |})
    else
      let split_pos := match find_stuff b with
                       | Some i => i
                       | None => if ends_fe b then length b - 1 else length b
                       end in
      (Data (offset s1 + split_pos) (firstn split_pos b),
       {| buf := skipn split_pos b; offset := offset s1 + split_pos; rest := rest s1 |})
  end.

Fixpoint pump_all (fuel : nat) (bs : nat) (s : cst) : list chunk :=
  match fuel with
  | O => []
  | S fuel => let '(c, s') := pump bs s in
              match c with Eof => [Eof] | _ => c :: pump_all fuel bs s' end
  end.

Definition chunks_of (bs : nat) (stream : list byte) : list chunk :=
  pump_all (S (S (length stream))) bs {| buf := []; offset := 0; rest := stream |}.

Definition remaining (s : cst) : list byte := buf s ++ rest s.
Definition bytes_of (c : chunk) : list byte :=
  match c with Data _ d => d | Sentinel _ => [FE; FD] | Eof => [] end.

(* ---- the refill loop ---- *)
Lemma refill_spec want carry rs b' r' :
  refill want carry rs = (b', r') -> length carry < want ->
  b' ++ r' = carry ++ rs /\ length b' = Nat.min want (length carry + length rs) /\
  (length b' = length carry -> rs = [] /\ b' = carry /\ r' = []).
Proof.
  unfold refill. intros H Hw. inversion H; subst; clear H.
  split; [apply firstn_skipn|]. split; [rewrite firstn_length, app_length; reflexivity|].
  intros Hl. rewrite firstn_length, app_length in Hl.
  assert (length rs = 0) by lia. destruct rs; [|discriminate]. rewrite app_nil_r.
  split; auto. split; [apply firstn_all2; lia|apply skipn_all2; lia].
Qed.

Lemma fill_spec : forall fuel bs s,
  match fill fuel bs s with
  | inl s1 => remaining s1 = remaining s /\ offset s1 = offset s /\ (2 - length (buf s) < fuel -> 2 <= length (buf s1))
  | inr (Eof, s') => remaining s = [] /\ remaining s' = [] /\ offset s' = offset s
  | inr (Data off d, s') => d = remaining s /\ d <> [] /\ length d < 2 /\ remaining s' = [] /\
                            off = offset s + length d /\ offset s' = off
  | inr (Sentinel _, _) => False
  end.
Proof.
  induction fuel as [|fuel IH]; intros bs s; cbn [fill].
  - repeat split; auto. lia.
  - destruct (2 <=? length (buf s)) eqn:E2.
    + apply Nat.leb_le in E2. repeat split; auto.
    + apply Nat.leb_gt in E2.
      destruct (refill (length (buf s) + Nat.max bs 1) (buf s) (rest s)) as [b' r'] eqn:R.
      destruct (refill_spec _ _ _ _ _ R ltac:(lia)) as (Eall & Elen & Enp).
      destruct (length b' =? length (buf s)) eqn:Ep.
      * apply Nat.eqb_eq in Ep. destruct (Enp Ep) as (Er & Eb & Er'). subst b' r'.
        destruct (length (buf s) =? 0) eqn:E0.
        -- apply Nat.eqb_eq in E0. destruct (buf s) eqn:Eb; [|discriminate].
           unfold remaining. cbn. rewrite Eb, Er. auto.
        -- apply Nat.eqb_neq in E0. unfold remaining. cbn. rewrite Er, app_nil_r.
           repeat split; auto. destruct (buf s); [cbn in E0; lia|discriminate].
      * apply Nat.eqb_neq in Ep.
        specialize (IH bs {| buf := b'; offset := offset s; rest := r' |}).
        destruct (fill fuel bs {| buf := b'; offset := offset s; rest := r' |}) as [s1|[c s']].
        -- destruct IH as (A & B & C). cbn [buf offset] in *. unfold remaining in *. cbn [buf rest] in *.
           rewrite A, Eall. repeat split; auto. intros Hf. apply C. lia.
        -- destruct c; auto; unfold remaining in *; cbn [buf rest offset] in *; rewrite Eall in IH; exact IH.
Qed.

(* ---- one pump ---- *)
Definition chunk_off (c : chunk) : option nat :=
  match c with Data o _ | Sentinel o => Some o | Eof => None end.

Lemma stuff_head_true' l : stuff_head l = true -> exists t, l = FE :: FD :: t.
Proof. apply stuff_head_true. Qed.

Lemma find_stuff_head_false l i : stuff_head l = false -> find_stuff l = Some i -> 1 <= i.
Proof. destruct l as [|a t]; cbn [find_stuff]; [discriminate|]. intros -> H. destruct (find_stuff t); cbn in H; inversion H. lia. Qed.

Lemma ends_fe_firstn_last l : 2 <= length l -> ends_fe l = true -> l = firstn (length l - 1) l ++ [FE].
Proof.
  intros L E. assert (Hne : l <> []) by (destruct l; [cbn in L; lia|discriminate]).
  destruct (exists_last Hne) as (l' & x & ->). rewrite ends_fe_app in E. apply N.eqb_eq in E. subst x.
  rewrite app_length. cbn [length]. replace (length l' + 1 - 1) with (length l') by lia.
  rewrite firstn_app, firstn_all, Nat.sub_diag. cbn. now rewrite app_nil_r.
Qed.

Theorem pump_spec bs s c s' :
  pump bs s = (c, s') ->
  remaining s = bytes_of c ++ remaining s' /\
  (c = Eof -> remaining s = []) /\
  (c <> Eof -> bytes_of c <> [] /\ offset s' = offset s + length (bytes_of c) /\ chunk_off c = Some (offset s')) /\
  (forall o d, c = Data o d -> no_stuff d /\ (ends_fe d = true -> hd_fd (remaining s') = false)).
Proof.
  unfold pump. pose proof (fill_spec 3 bs s) as F.
  destruct (fill 3 bs s) as [s1|[c0 s0]].
  - destruct F as (ER & EO & EL). specialize (EL ltac:(lia)).
    destruct (starts_stuff (buf s1)) eqn:ES.
    + (* sentinel *)
      intros H; inversion H; subst c s'; clear H. apply stuff_head_true in ES as (t & Et).
      unfold remaining in *. cbn [buf rest offset bytes_of chunk_off]. rewrite <- ER, Et. cbn.
      repeat split; auto; try discriminate; try lia.
    + set (b := buf s1) in *.
      set (sp := match find_stuff b with Some i => i | None => if ends_fe b then length b - 1 else length b end).
      intros H; inversion H; subst c s'; clear H.
      assert (Hsp : 1 <= sp <= length b).
      { unfold sp. destruct (find_stuff b) as [i|] eqn:Fi.
        - pose proof (find_stuff_head_false _ _ ES Fi). apply find_stuff_some in Fi as (pre & post & E & L & _).
          rewrite E, app_length. cbn. lia.
        - destruct (ends_fe b); lia. }
      unfold remaining in *. cbn [buf rest offset bytes_of chunk_off].
      split; [rewrite <- ER; fold b; rewrite app_assoc, firstn_skipn; reflexivity|].
      split; [discriminate|].
      split.
      { intros _. rewrite firstn_length. replace (Nat.min sp (length b)) with sp by lia.
        repeat split; auto; try lia. intros E. apply (f_equal (@length _)) in E. rewrite firstn_length in E. cbn in E. lia. }
      intros o d Hd. inversion Hd; subst o d; clear Hd.
      unfold sp. destruct (find_stuff b) as [i|] eqn:Fi.
      * (* split at the first stuff sequence: what follows starts with FE FD *)
        apply find_stuff_some in Fi as (pre & post & E & L & NS). subst i.
        rewrite E, firstn_app, firstn_all, Nat.sub_diag, skipn_app, skipn_all, Nat.sub_diag. cbn [firstn skipn app].
        rewrite app_nil_r. split; [eapply find_stuff_none_app_inv; exact NS|]. intros _. reflexivity.
      * destruct (ends_fe b) eqn:Ee.
        -- (* keep the trailing FE for the next pump *)
           assert (Hne : b <> []) by (destruct b; [cbn in EL; lia|discriminate]).
           destruct (exists_last Hne) as (l' & x & Eb). clearbody b. subst b.
           rewrite ends_fe_app in Ee. apply N.eqb_eq in Ee. subst x.
           rewrite app_length. cbn [length]. replace (length l' + 1 - 1) with (length l') by lia.
           rewrite firstn_app, firstn_all, Nat.sub_diag, skipn_app, skipn_all, Nat.sub_diag. cbn [firstn skipn app].
           rewrite app_nil_r. split; [eapply find_stuff_none_app_inv; exact Fi|]. intros _. reflexivity.
        -- (* whole buffer, which does not end in FE *)
           rewrite firstn_all. split; [exact Fi|]. intros E. congruence.
  - destruct c0 as [o| |o d]; [destruct F| |].
    + destruct F as (A & B & C). intros H; inversion H; subst c s'; clear H.
      cbn [bytes_of]. rewrite A, B. repeat split; auto; try congruence; try discriminate.
    + destruct F as (A & B & C & D & E & G). intros H; inversion H; subst c s'; clear H.
      cbn [bytes_of chunk_off]. rewrite D, app_nil_r.
      split; [auto|]. split; [discriminate|]. split; [intros _; repeat split; auto; lia|].
      intros o' d' Hd. inversion Hd; subst o' d'; clear Hd. split.
      * (* a carried-over remainder of fewer than two bytes cannot contain the sequence *)
        destruct d as [|x [|y t]]; cbn in C; try lia; reflexivity.
      * intros _. reflexivity.
Qed.

(* ---- all pumps up to Eof ---- *)
Fixpoint wf (off : nat) (prev_fe : bool) (cs : list chunk) : Prop :=
  match cs with
  | [] => False
  | Eof :: t => t = []
  | Data o d :: t => d <> [] /\ no_stuff d /\ o = off + length d /\ (prev_fe = true -> hd_fd d = false) /\ wf o (ends_fe d) t
  | Sentinel o :: t => o = off + 2 /\ wf o false t
  end.

Lemma hd_fd_app d r : d <> [] -> hd_fd (d ++ r) = hd_fd d.
Proof. destruct d; [congruence|reflexivity]. Qed.

Theorem chunker_tiles bs : forall fuel s prev_fe,
  length (remaining s) < fuel -> (prev_fe = true -> hd_fd (remaining s) = false) ->
  wf (offset s) prev_fe (pump_all fuel bs s) /\ concat (map bytes_of (pump_all fuel bs s)) = remaining s.
Proof.
  induction fuel as [|fuel IH]; intros s prev_fe Hf Hp; [lia|].
  cbn [pump_all]. destruct (pump bs s) as [c s'] eqn:P.
  destruct (pump_spec bs s c s' P) as (Erem & Heof & Hne & Hdata).
  destruct c as [o| |o d].
  - (* sentinel *)
    destruct (Hne ltac:(discriminate)) as (_ & Ho & Hc). cbn [bytes_of length chunk_off] in *. inversion Hc; subst o.
    destruct (IH s' false) as (W & C); [rewrite Erem, app_length in Hf; cbn in Hf; lia|discriminate|].
    split; [cbn [wf]; split; [lia|exact W]|]. cbn [map concat bytes_of]. rewrite C. now rewrite Erem.
  - (* Eof *)
    split; [reflexivity|]. cbn. now rewrite (Heof eq_refl).
  - (* data *)
    destruct (Hne ltac:(discriminate)) as (Hd & Ho & Hc). cbn [bytes_of chunk_off] in *. inversion Hc; subst o.
    destruct (Hdata _ _ eq_refl) as (NS & Str).
    destruct (IH s' (ends_fe d)) as (W & C); [rewrite Erem, app_length in Hf; destruct d; [congruence|cbn in Hf; lia]|exact Str|].
    split.
    + cbn [wf]. repeat split; auto. intros Hpf. specialize (Hp Hpf). rewrite Erem, hd_fd_app in Hp; auto.
    + cbn [map concat bytes_of]. rewrite C. now rewrite Erem.
Qed.

(* for a whole stream, from the initial state, whatever the block size (0 and 1 included) *)
Corollary C08_tiling bs stream :
  wf 0 false (chunks_of bs stream) /\ concat (map bytes_of (chunks_of bs stream)) = stream.
Proof.
  unfold chunks_of. apply (chunker_tiles bs (S (S (length stream))) {| buf := []; offset := 0; rest := stream |} false).
  - unfold remaining. cbn. lia.
  - discriminate.
Qed.
Print Assumptions C08_tiling.
