From Coq Require Import List NArith Lia Bool Arith.
Import ListNotations.
From WP Require Import hcobs.Stuffing.

(* ------------------------------------------------------------------ *)
(* Chunk-level faithful model of EncoderState::consume_once / encode_* / terminate.
   Headers and holes are the framing layer's business; here a closed chunk is its payload. *)

Record est := { closed : list (list byte); written : list byte; mms : bool; limit : nat }.

Definition ends_fe (l : list byte) : bool :=
  match rev l with b :: _ => N.eqb b FE | [] => false end.

Definition close (e : est) (payload : list byte) (ms : nat) : est :=
  {| closed := closed e ++ [payload]; written := []; mms := false; limit := ms |}.

(* returns the new state and the number of input bytes consumed; input must be non-empty *)
Definition consume_once (ms : nat) (e : est) (input : list byte) : est * nat :=
  match input with
  | [] => (e, 0)
  | b0 :: _ =>
    if (mms e && N.eqb b0 FD)%bool then (close e (written e) ms, 1)
    else
      let w1 := if mms e then written e ++ [FE] else written e in
      let remaining := limit e - length w1 in
      let window := firstn remaining input in
      match find_stuff window with
      | Some idx => (close e (w1 ++ firstn idx input) ms, idx + 2)
      | None =>
        if length window =? remaining then (close e (w1 ++ window) ms, remaining)
        else
          let m' := ends_fe input in
          let tocopy := if m' then removelast input else input in
          ({| closed := closed e; written := w1 ++ tocopy; mms := m'; limit := limit e |}, length input)
      end
  end.

Fixpoint encode_loop (fuel : nat) (ms : nat) (e : est) (input : list byte) : est :=
  match fuel with
  | O => e
  | S fuel =>
    match input with
    | [] => e
    | _ => let '(e', c) := consume_once ms e input in encode_loop fuel ms e' (skipn c input)
    end
  end.

(* one call to Encoder::encode / encode_copy with one piece *)
Definition encode_piece (ms : nat) (e : est) (piece : list byte) : est :=
  encode_loop (S (S (length piece))) ms e piece.

Definition open_of (e : est) : list byte := written e ++ (if mms e then [FE] else []).
Definition terminate (e : est) : list (list byte) := closed e ++ [open_of e].
Definition init (mi : nat) : est := {| closed := []; written := []; mms := false; limit := mi |}.

Definition encode_pieces (mi ms : nat) (pieces : list (list byte)) : list (list byte) :=
  terminate (fold_left (encode_piece ms) pieces (init mi)).

(* sanity: the crate's own vectors, split in awkward places *)
Definition b := N.of_nat.
Eval vm_compute in encode_pieces 3 5 [[49;50;254]; [253]]%N.                 (* 12 FE | FD  -> [12FE]full [FD] *)
Eval vm_compute in encode_pieces 3 5 [[49]; [254]; [253]]%N.                 (* 1 FE FD -> [1] [] *)
Eval vm_compute in stuff 10 3 5 [49;254;253]%N.
Eval vm_compute in encode_pieces 3 5 [[49;50;51;52;254]; [254]; [253]]%N.
Eval vm_compute in stuff 10 3 5 [49;50;51;52;254;254;253]%N.
