From Coq Require Import List NArith Lia Bool Arith.
Import ListNotations.
From WP Require Import hcobs.Stuffing hcobs.EncChunks.

(* ---------- more facts about find_stuff ---------- *)
Definition hd_fd (t : list byte) : bool := match t with c :: _ => N.eqb c FD | [] => false end.

Lemma ends_fe_cons a l : l <> [] -> ends_fe (a :: l) = ends_fe l.
Proof.
  intros H. unfold ends_fe. cbn [rev]. destruct (rev l) eqn:E.
  - apply (f_equal (@rev _)) in E. rewrite rev_involutive in E. cbn in E. congruence.
  - reflexivity.
Qed.
Lemma ends_fe_single a : ends_fe [a] = N.eqb a FE.
Proof. reflexivity. Qed.
Lemma ends_fe_app l a : ends_fe (l ++ [a]) = N.eqb a FE.
Proof. unfold ends_fe. now rewrite rev_app_distr. Qed.
Lemma ends_fe_app2 l1 l2 : l2 <> [] -> ends_fe (l1 ++ l2) = ends_fe l2.
Proof.
  intros H. unfold ends_fe. rewrite rev_app_distr. destruct (rev l2) eqn:E; [|reflexivity].
  apply (f_equal (@rev _)) in E. rewrite rev_involutive in E. cbn in E. congruence.
Qed.
Lemma ends_fe_true l : ends_fe l = true -> l = removelast l ++ [FE].
Proof.
  unfold ends_fe. destruct (rev l) as [|c r] eqn:E; [discriminate|]. intros H. apply N.eqb_eq in H. subst c.
  apply (f_equal (@rev _)) in E. rewrite rev_involutive in E. cbn in E. subst l.
  now rewrite removelast_last.
Qed.

Lemma find_stuff_app_l o t :
  no_stuff o -> (ends_fe o = true -> hd_fd t = false) ->
  find_stuff (o ++ t) = option_map (Nat.add (length o)) (find_stuff t).
Proof.
  unfold no_stuff. induction o as [|a o IH]; intros NS St.
  - cbn. destruct (find_stuff t); reflexivity.
  - cbn [app find_stuff length] in *.
    destruct (stuff_head (a :: o)) eqn:E1; [discriminate|].
    destruct (find_stuff o) eqn:E2; [discriminate|].
    assert (stuff_head (a :: o ++ t) = false) as ->.
    { destruct o as [|b o']; [|exact E1]. cbn. destruct t as [|c t']; [reflexivity|].
      destruct (N.eqb a FE) eqn:Ea; [|reflexivity]. cbn. rewrite ends_fe_single in St. specialize (St Ea). exact St. }
    rewrite IH; auto.
    + destruct (find_stuff t); reflexivity.
    + intros H. apply St. destruct o as [|b o']; [discriminate|]. rewrite ends_fe_cons; [exact H|discriminate].
Qed.

Lemma find_stuff_at pre t : no_stuff (pre ++ [FE]) -> find_stuff (pre ++ FE :: FD :: t) = Some (length pre).
Proof.
  unfold no_stuff. induction pre as [|a pre IH]; intros NS; [reflexivity|].
  cbn [app find_stuff length] in *.
  destruct (stuff_head (a :: pre ++ [FE])) eqn:E1; [discriminate|].
  destruct (find_stuff (pre ++ [FE])) eqn:E2; [discriminate|].
  assert (stuff_head (a :: pre ++ FE :: FD :: t) = false) as ->.
  { destruct pre as [|p pre']; cbn in *; [|exact E1]. destruct (N.eqb a FE); cbn in *; auto. }
  rewrite IH by reflexivity. reflexivity.
Qed.

Lemma find_stuff_firstn_some m i k : find_stuff m = Some i -> i + 2 <= k -> find_stuff (firstn k m) = Some i.
Proof.
  intros H Hk. apply find_stuff_some in H as (pre & post & -> & L & NS). subst i.
  rewrite firstn_app. rewrite firstn_all2 by lia.
  replace (k - length pre) with (S (S (k - length pre - 2))) by lia. cbn [firstn].
  now apply find_stuff_at.
Qed.

Lemma find_stuff_firstn_none m k : no_stuff m -> no_stuff (firstn k m).
Proof. intros H. rewrite <- (firstn_skipn k m) in H. now apply find_stuff_none_app_inv in H. Qed.

(* ---------- one unfolding of [stuff], for any fuel that is large enough ---------- *)
Lemma find_some_len m limit i : find_stuff (firstn limit m) = Some i -> i + 2 <= length m /\ i + 2 <= limit.
Proof.
  intros F. apply find_stuff_some in F as (pre & post & E & L & _).
  assert (H : length (firstn limit m) = length pre + 2 + length post) by (rewrite E, app_length; cbn; lia).
  rewrite firstn_length in H. lia.
Qed.

Lemma stuff_fuel : forall f1 f2 limit ms m, 0 < limit -> 0 < ms -> length m < f1 -> length m < f2 ->
  stuff f1 limit ms m = stuff f2 limit ms m.
Proof.
  induction f1 as [|f1 IH]; intros f2 limit ms m Hl Hms H1 H2; [lia|]. destruct f2 as [|f2]; [lia|].
  cbn [stuff]. destruct (find_stuff (firstn limit m)) as [i|] eqn:F.
  - f_equal. apply find_some_len in F. apply IH; auto; rewrite skipn_length; lia.
  - destruct (limit <=? length m) eqn:Le; [|reflexivity]. apply Nat.leb_le in Le.
    f_equal. apply IH; auto; rewrite skipn_length; lia.
Qed.

Definition stuffN (limit ms : nat) (m : list byte) := stuff (S (length m)) limit ms m.

Lemma stuffN_some limit ms m i : 0 < limit -> 0 < ms ->
  find_stuff (firstn limit m) = Some i -> stuffN limit ms m = firstn i m :: stuffN ms ms (skipn (i + 2) m).
Proof.
  intros Hl Hms F. unfold stuffN.
  set (R := stuff (S (length (skipn (i + 2) m))) ms ms (skipn (i + 2) m)).
  cbn [stuff]. rewrite F. subst R. f_equal.
  apply find_some_len in F. apply stuff_fuel; auto; rewrite ?skipn_length; lia.
Qed.
Lemma stuffN_full limit ms m : 0 < limit -> 0 < ms ->
  find_stuff (firstn limit m) = None -> limit <= length m ->
  stuffN limit ms m = firstn limit m :: stuffN ms ms (skipn limit m).
Proof.
  intros Hl Hms F Le. unfold stuffN.
  set (R := stuff (S (length (skipn limit m))) ms ms (skipn limit m)).
  cbn [stuff]. rewrite F.
  apply Nat.leb_le in Le. rewrite Le. apply Nat.leb_le in Le. subst R. f_equal.
  apply stuff_fuel; auto; rewrite ?skipn_length; lia.
Qed.
Lemma stuffN_short limit ms m : find_stuff (firstn limit m) = None -> length m < limit -> stuffN limit ms m = [m].
Proof.
  intros F Lt. unfold stuffN. cbn [stuff]. rewrite F.
  assert (limit <=? length m = false) as -> by (apply Nat.leb_gt; lia). reflexivity.
Qed.

(* ---------- the invariant of the streaming encoder ---------- *)
Section Enc.
Variables mi ms : nat.
Hypothesis Hmi : 0 < mi.
Hypothesis Hms : 0 < ms.

Record Rep (e : est) (x : list byte) : Prop := {
  r_online : forall z, stuffN mi ms (x ++ z) = closed e ++ stuffN (limit e) ms (open_of e ++ z);
  r_len : length (open_of e) < limit e;
  r_ns : no_stuff (open_of e);
  r_fe : mms e = false -> ends_fe (written e) = false;
  r_lim : 0 < limit e
}.

Lemma rep_init : Rep (init mi) [].
Proof. constructor; cbn; auto. reflexivity. Qed.

(* at the end of the input the encoder's chunks are exactly the reference chunking *)
Lemma rep_terminate e x : Rep e x -> terminate e = stuffN mi ms x.
Proof.
  intros R. pose proof (r_online e x R []) as H. rewrite !app_nil_r in H. rewrite H. unfold terminate. f_equal.
  symmetry. apply stuffN_short; [|apply (r_len e x R)].
  apply find_stuff_firstn_none. apply (r_ns e x R).
Qed.

Lemma open_of_w1 e : open_of e = (if mms e then written e ++ [FE] else written e).
Proof. unfold open_of. destruct (mms e); [reflexivity|now rewrite app_nil_r]. Qed.

(* one call of consume_once on non-empty input *)
Lemma consume_once_rep e x y e' c :
  Rep e x -> y <> [] -> consume_once ms e y = (e', c) ->
  1 <= c <= length y /\ Rep e' (x ++ firstn c y).
Proof.
  intros R Hy H. destruct y as [|b0 y0] eqn:Ey; [congruence|]. rewrite <- Ey in *.
  assert (Hd : hd_fd y = N.eqb b0 FD) by (rewrite Ey; reflexivity).
  unfold consume_once in H. rewrite Ey in H. rewrite <- Ey in H.
  pose proof (r_len e x R) as RL. pose proof (r_ns e x R) as RN. pose proof (r_lim e x R) as RLim.
  destruct (mms e && N.eqb b0 FD)%bool eqn:CA.
  - (* A: the held-back FE is completed by FD *)
    apply andb_prop in CA as (Em & Eb). apply N.eqb_eq in Eb. subst b0.
    inversion H; subst e' c; clear H.
    split; [rewrite Ey; cbn; lia|].
    assert (Eo : open_of e = written e ++ [FE]) by (unfold open_of; now rewrite Em).
    rewrite Ey. cbn [firstn].
    constructor; cbn [closed written mms limit open_of close]; auto; try (cbn; lia); try reflexivity.
    intros z. rewrite <- app_assoc. rewrite (r_online e x R). rewrite <- app_assoc. f_equal.
    rewrite Eo. rewrite <- app_assoc. cbn [app].
    assert (F : find_stuff (firstn (limit e) (written e ++ FE :: FD :: z)) = Some (length (written e))).
    { apply find_stuff_firstn_some; [apply find_stuff_at; rewrite <- Eo; exact RN|].
      rewrite Eo, app_length in RL. cbn in RL. lia. }
    rewrite (stuffN_some _ _ _ _ RLim Hms F). f_equal.
    + rewrite firstn_app, firstn_all, Nat.sub_diag. cbn. now rewrite app_nil_r.
    + f_equal. replace (length (written e) + 2) with (length (written e ++ [FE; FD])) by (rewrite app_length; cbn; lia).
      replace (written e ++ FE :: FD :: z) with ((written e ++ [FE; FD]) ++ z) by (rewrite <- app_assoc; reflexivity).
      now rewrite skipn_app, skipn_all, Nat.sub_diag.
  - (* B *)
    set (o := open_of e) in *.
    assert (Ew1 : (if mms e then written e ++ [FE] else written e) = o) by (unfold o; symmetry; apply open_of_w1).
    rewrite Ew1 in H.
    assert (NoStr : ends_fe o = true -> hd_fd y = false).
    { intros Ho. rewrite Hd. destruct (mms e) eqn:Em; [cbn in CA; exact CA|].
      unfold o, open_of in Ho. rewrite Em, app_nil_r in Ho. rewrite (r_fe e x R Em) in Ho. discriminate. }
    set (remaining := limit e - length o) in *.
    assert (Hrem : 1 <= remaining) by (unfold remaining; lia).
    assert (Hwin : forall z, firstn (limit e) (o ++ y ++ z) = o ++ firstn remaining (y ++ z)).
    { intros z. rewrite firstn_app. rewrite firstn_all2 by lia. reflexivity. }
    destruct (find_stuff (firstn remaining y)) as [idx|] eqn:F.
    + (* B1: a stuff sequence inside the window *)
      inversion H; subst e' c; clear H.
      pose proof (find_some_len _ _ _ F) as (Li & Lr).
      split; [lia|].
      assert (Fy : find_stuff y = Some idx).
      { apply find_stuff_some in F as (pre & post & E & L & NS).
        rewrite <- (firstn_skipn remaining y), E, <- app_assoc. cbn [app]. rewrite <- L. now apply find_stuff_at. }
      constructor; cbn [closed written mms limit open_of close]; auto; try (cbn; lia); try reflexivity.
      intros z. rewrite <- app_assoc. rewrite (r_online e x R). rewrite <- app_assoc. f_equal. fold o.
      apply find_stuff_some in Fy as (pre & post & Ey' & L & NS).
      assert (Efc : firstn (idx + 2) y = pre ++ [FE; FD]).
      { rewrite Ey'. replace (pre ++ FE :: FD :: post) with ((pre ++ [FE; FD]) ++ post) by (rewrite <- app_assoc; reflexivity).
        replace (idx + 2) with (length (pre ++ [FE; FD])) by (rewrite app_length; cbn; lia).
        now rewrite firstn_app, firstn_all, Nat.sub_diag, app_nil_r. }
      assert (Efi : firstn idx y = pre).
      { rewrite Ey', <- L, firstn_app, firstn_all, Nat.sub_diag. cbn. now rewrite app_nil_r. }
      rewrite Efc, Efi.
      assert (Fo : find_stuff (firstn (limit e) (o ++ (pre ++ [FE; FD]) ++ z)) = Some (length o + idx)).
      { apply find_stuff_firstn_some; [|unfold remaining in Lr; lia].
        rewrite find_stuff_app_l; auto.
        - rewrite <- app_assoc. cbn [app]. rewrite find_stuff_at by exact NS. cbn. now rewrite L.
        - intros Ho. specialize (NoStr Ho). rewrite Ey' in NoStr. destruct pre; cbn in *; exact NoStr. }
      rewrite (stuffN_some _ _ _ _ RLim Hms Fo). cbn [app]. f_equal.
      * rewrite firstn_app. rewrite firstn_all2 by lia. f_equal.
        replace (length o + idx - length o) with idx by lia.
        rewrite <- app_assoc, <- L, firstn_app, firstn_all, Nat.sub_diag. cbn [firstn]. now rewrite app_nil_r.
      * f_equal. replace (length o + idx + 2) with (length (o ++ pre ++ [FE; FD])) by (rewrite !app_length; cbn; lia).
        replace (o ++ (pre ++ [FE; FD]) ++ z) with ((o ++ pre ++ [FE; FD]) ++ z) by (now rewrite <- !app_assoc).
        now rewrite skipn_app, skipn_all, Nat.sub_diag.
    + destruct (length (firstn remaining y) =? remaining) eqn:Efull.
      * (* B2: the chunk is full *)
        apply Nat.eqb_eq in Efull. inversion H; subst e' c; clear H.
        assert (Ly : remaining <= length y) by (rewrite firstn_length in Efull; lia).
        split; [lia|].
        constructor; cbn [closed written mms limit open_of close]; auto; try (cbn; lia); try reflexivity.
        intros z. rewrite <- app_assoc. rewrite (r_online e x R). rewrite <- app_assoc. f_equal. fold o.
        assert (Ew : firstn (limit e) (o ++ firstn remaining y ++ z) = o ++ firstn remaining y).
        { rewrite firstn_app. rewrite firstn_all2 by lia. f_equal. fold remaining.
          rewrite firstn_app. rewrite firstn_all2 by lia. replace (remaining - length (firstn remaining y)) with 0 by lia.
          cbn. now rewrite app_nil_r. }
        assert (Fo : find_stuff (firstn (limit e) (o ++ firstn remaining y ++ z)) = None).
        { rewrite Ew. rewrite find_stuff_app_l; auto; [now rewrite F|].
          intros Ho. specialize (NoStr Ho). destruct y; [congruence|]. destruct remaining; [lia|]. exact NoStr. }
        rewrite (stuffN_full _ _ _ RLim Hms Fo); [|rewrite !app_length; lia].
        rewrite Ew. cbn [app]. f_equal. f_equal.
        replace (limit e) with (length (o ++ firstn remaining y)) by (rewrite app_length; unfold remaining in *; lia).
        replace (o ++ firstn remaining y ++ z) with ((o ++ firstn remaining y) ++ z) by (now rewrite <- app_assoc).
        now rewrite skipn_app, skipn_all, Nat.sub_diag.
      * (* B3: all of the piece fits in the open chunk *)
        apply Nat.eqb_neq in Efull. inversion H; subst e' c; clear H.
        assert (Ly : length y < remaining) by (rewrite firstn_length in Efull; lia).
        split; [rewrite Ey; cbn; lia|].
        rewrite firstn_all.
        assert (Fy : find_stuff y = None) by (rewrite firstn_all2 in F by lia; exact F).
        assert (Eopen : (o ++ (if ends_fe y then removelast y else y)) ++ (if ends_fe y then [FE] else []) = o ++ y).
        { destruct (ends_fe y) eqn:Ee; [|now rewrite app_nil_r]. rewrite <- app_assoc. f_equal. symmetry. now apply ends_fe_true. }
        constructor; cbn [closed written mms limit]; unfold open_of; cbn [written mms]; rewrite ?Eopen; auto.
        -- intros z. rewrite <- app_assoc. rewrite (r_online e x R). fold o. now rewrite <- app_assoc.
        -- rewrite app_length. unfold remaining in Ly. lia.
        -- unfold no_stuff. rewrite find_stuff_app_l; auto. now rewrite Fy.
        -- intros Ee. rewrite Ee. rewrite ends_fe_app2 by exact Hy. exact Ee.
Qed.
Lemma encode_loop_rep : forall fuel e x y,
  Rep e x -> length y < fuel -> Rep (encode_loop fuel ms e y) (x ++ y).
Proof.
  induction fuel as [|fuel IH]; intros e x y R Hf; [lia|].
  cbn [encode_loop]. destruct y as [|b0 y0] eqn:Ey; [now rewrite app_nil_r|]. rewrite <- Ey in *.
  destruct (consume_once ms e y) as [e' c] eqn:H.
  assert (Hy : y <> []) by (rewrite Ey; discriminate).
  destruct (consume_once_rep e x y e' c R Hy H) as ((C1 & C2) & R').
  replace (x ++ y) with ((x ++ firstn c y) ++ skipn c y) by (now rewrite <- app_assoc, firstn_skipn).
  apply IH; auto. rewrite skipn_length. lia.
Qed.

Lemma encode_piece_rep e x piece : Rep e x -> Rep (encode_piece ms e piece) (x ++ piece).
Proof. intros R. apply encode_loop_rep; auto. Qed.

Lemma fold_rep : forall pieces e x, Rep e x -> Rep (fold_left (encode_piece ms) pieces e) (x ++ concat pieces).
Proof.
  induction pieces as [|p ps IH]; intros e x R; cbn [fold_left concat]; [now rewrite app_nil_r|].
  rewrite app_assoc. apply IH. now apply encode_piece_rep.
Qed.

(* every segmentation of the input into encode calls yields the reference chunking of the whole input *)
Theorem encode_any_segmentation pieces :
  encode_pieces mi ms pieces = stuffN mi ms (concat pieces).
Proof.
  unfold encode_pieces. apply (rep_terminate _ (concat pieces)).
  apply (fold_rep pieces (init mi) []). apply rep_init.
Qed.

(* hence: split-independence, and the round trip through the reference unstuffing *)
Corollary split_independent p1 p2 : concat p1 = concat p2 -> encode_pieces mi ms p1 = encode_pieces mi ms p2.
Proof. intros E. now rewrite !encode_any_segmentation, E. Qed.

Corollary roundtrip_any_segmentation pieces :
  unstuff mi ms (encode_pieces mi ms pieces) = Some (concat pieces).
Proof. rewrite encode_any_segmentation. apply unstuff_stuff; auto. Qed.
End Enc.
Print Assumptions roundtrip_any_segmentation.
