From Coq Require Import List NArith Lia Bool Arith.
Import ListNotations.
From WP Require Import hcobs.Stuffing hcobs.EncChunks hcobs.EncChunksProofs hcobs.Dec.

(* C02: the reference encoding never contains FE FD *)
Lemma no_stuff_app a b : no_stuff a -> no_stuff b -> (ends_fe a = true -> hd_fd b = false) -> no_stuff (a ++ b).
Proof. intros A B S. unfold no_stuff. rewrite find_stuff_app_l by auto. now rewrite B. Qed.

Lemma no_stuff_nil : no_stuff []. Proof. reflexivity. Qed.

Definition small (b : byte) : Prop := (b < 253)%N.

Lemma small_ne b : small b -> N.eqb b FE = false /\ N.eqb b FD = false.
Proof. unfold small, FE, FD. intros H. split; apply N.eqb_neq; lia. Qed.

Lemma no_stuff_small_single b : small b -> no_stuff [b] /\ ends_fe [b] = false /\ hd_fd [b] = false.
Proof.
  intros H. destruct (small_ne b H) as (E1 & E2). split; [reflexivity|]. split.
  - unfold ends_fe. cbn [rev app]. exact E1.
  - cbn [hd_fd]. exact E2.
Qed.

Lemma no_stuff_two_small a b : small a -> small b -> no_stuff [a; b] /\ ends_fe [a; b] = false /\ hd_fd [a; b] = false.
Proof.
  intros Ha Hb. destruct (small_ne a Ha) as (A1 & A2). destruct (small_ne b Hb) as (B1 & B2). split; [|split].
  - unfold no_stuff. cbn [find_stuff stuff_head]. rewrite A1. cbn [andb option_map]. reflexivity.
  - unfold ends_fe. cbn [rev app]. exact B1.
  - cbn [hd_fd]. exact A2.
Qed.

Lemma digits n : n < RADIX * RADIX -> n mod RADIX < RADIX /\ n / RADIX < RADIX.
Proof.
  intros H. unfold RADIX in *. split; [apply Nat.mod_upper_bound; lia|apply Nat.div_lt_upper_bound; lia].
Qed.

Lemma hdr_props (first : bool) (n : nat) : (if first return Prop then n <= 252 else n < RADIX * RADIX) ->
  no_stuff (hdr first n) /\ ends_fe (hdr first n) = false /\ hd_fd (hdr first n) = false /\ hdr first n <> [].
Proof.
  intros H. unfold hdr. destruct first.
  - destruct (no_stuff_small_single (N.of_nat n)) as (A & B & C); [unfold small; lia|]. repeat split; auto. discriminate.
  - destruct (digits n H) as (D0 & D1). unfold RADIX in *.
    destruct (no_stuff_two_small (N.of_nat (n mod 253)) (N.of_nat (n / 253))) as (A & B & C); [unfold small; lia|unfold small; lia|].
    repeat split; auto. discriminate.
Qed.

Lemma hd_fd_app_ne a b : a <> [] -> hd_fd (a ++ b) = hd_fd a.
Proof. destruct a; [congruence|reflexivity]. Qed.

Section NS.
Variables mi ms : nat.
Hypothesis Hmi : 0 < mi <= 252.
Hypothesis Hms : 0 < ms < RADIX * RADIX.

(* a framed list of stuff-free chunks (sizes within the limits) is stuff-free, and starts with a header byte *)
Lemma frame_rest_no_stuff cs :
  Forall (fun c => no_stuff c /\ length c <= ms) cs ->
  no_stuff (frame_rest cs) /\ hd_fd (frame_rest cs) = false.
Proof.
  induction 1 as [|c cs (Hc & Hl) _ (IH1 & IH2)]; cbn [frame_rest]; [split; reflexivity|].
  destruct (hdr_props false (length c) ltac:(cbv iota; unfold RADIX in *; lia)) as (H1 & H2 & H3 & H4).
  split.
  - apply no_stuff_app; [exact H1| |intros E; congruence].
    apply no_stuff_app; [exact Hc|exact IH1|intros _; exact IH2].
  - rewrite hd_fd_app_ne by exact H4. exact H3.
Qed.

Lemma frame_no_stuff cs :
  match cs with c :: _ => length c <= mi | [] => True end ->
  Forall no_stuff cs -> Forall (fun c => length c <= ms) (tl cs) -> no_stuff (frame cs).
Proof.
  destruct cs as [|c cs]; intros H1 HN HS; [reflexivity|]. cbn [frame tl] in *.
  inversion HN as [|? ? Hc Hcs]; subst.
  destruct (hdr_props true (length c) ltac:(cbv iota; lia)) as (A & B & C & D).
  assert (F : Forall (fun c => no_stuff c /\ length c <= ms) cs).
  { clear - Hcs HS. induction cs; constructor; inversion Hcs; inversion HS; subst; auto. }
  destruct (frame_rest_no_stuff cs F) as (R1 & R2).
  apply no_stuff_app; [exact A| |intros E; congruence].
  apply no_stuff_app; [exact Hc|exact R1|intros _; exact R2].
Qed.

(* the chunks produced by the reference stuffing are stuff-free *)
Lemma stuff_chunks_no_stuff : forall fuel limit m, Forall no_stuff (stuff fuel limit ms m).
Proof.
  induction fuel as [|fuel IH]; intros limit m; cbn [stuff]; [constructor|].
  destruct (find_stuff (firstn limit m)) as [i|] eqn:F.
  - constructor; [|apply IH].
    apply find_stuff_some in F as (pre & post & E & L & NS).
    assert (firstn i m = pre).
    { assert (firstn i (firstn limit m) = pre) by (rewrite E, <- L, firstn_app, firstn_all, Nat.sub_diag; cbn; now rewrite app_nil_r).
      rewrite firstn_firstn in H. assert (i <= limit).
      { assert (length (firstn limit m) = length pre + 2 + length post) by (rewrite E, app_length; cbn; lia). rewrite firstn_length in H0. lia. }
      now replace (Nat.min i limit) with i in H by lia. }
    rewrite H. eapply find_stuff_none_app_inv; exact NS.
  - destruct (limit <=? length m) eqn:E.
    + constructor; [exact F|apply IH].
    + constructor; [|constructor]. apply Nat.leb_gt in E. now rewrite firstn_all2 in F by lia.
Qed.

Theorem C02_encode_ref_no_stuff m : no_stuff (encode_ref mi ms m).
Proof.
  unfold encode_ref, stuffN. destruct (stuff_sizes mi ms Hmi Hms (S (length m)) mi m ltac:(lia)) as (S1 & S2).
  apply frame_no_stuff; auto. apply stuff_chunks_no_stuff.
Qed.

(* with the streaming encoder in front: whatever the segmentation, the bytes contain no stuff sequence *)
Corollary C02_streaming_no_stuff pieces : no_stuff (frame (encode_pieces mi ms pieces)).
Proof. rewrite (encode_any_segmentation mi ms) by lia. apply C02_encode_ref_no_stuff. Qed.
End NS.
Print Assumptions C02_streaming_no_stuff.
