(* Consequences of the segment specification: every sentinel the chunker reports is a delimiter of the
   left-to-right scan and vice versa (C08), and a valid record delimited by FE FD survives whatever
   surrounds it (C06). *)
From Coq Require Import List NArith Lia Bool Arith ZifyNat ZifyN ZifyBool.
From WP Require Import hcobs.Stuffing hcobs.EncChunks hcobs.EncChunksProofs hcobs.Dec hcobs.NoStuff hcobs.Format hcobs.Chunker hcobs.ReaderRecord hcobs.Reader hcobs.ReaderProofs.
Import ListNotations.

Definition sentinel_ends (cs : list chunk) : list nat :=
  flat_map (fun c => match c with Sentinel o => [o] | _ => [] end) cs.

Lemma segs_head off s : exists x r, segs off s = (off, x) :: r.
Proof.
  unfold segs. destruct (length s); cbn [segments_from]; [eauto|]. destruct (find_stuff s); eauto.
Qed.

(* the end offsets of the reported sentinels are exactly the starts of the 2nd, 3rd, ... segment *)
Lemma sentinels_are_delimiters : forall cs off prev_fe acc sstart,
  wf off prev_fe cs -> no_stuff acc -> (acc <> [] -> ends_fe acc = prev_fe) -> sstart + length acc = off ->
  map fst (tl (segs sstart (acc ++ bytes cs))) = sentinel_ends cs.
Proof.
  induction cs as [|c t IH]; intros off prev_fe acc sstart W NS Hfe Hl; [destruct W|].
  destruct c as [o| |o d]; cbn [wf] in W.
  - destruct W as (-> & W).
    assert (Fs : find_stuff (acc ++ bytes (Sentinel (off + 2) :: t)) = Some (length acc)).
    { unfold bytes. cbn [map concat bytes_of app]. apply find_stuff_at. apply no_stuff_app; [exact NS|reflexivity|intros _; reflexivity]. }
    rewrite (segs_some _ _ _ Fs). cbn [tl sentinel_ends flat_map app].
    assert (E2 : skipn (length acc + 2) (acc ++ bytes (Sentinel (off + 2) :: t)) = bytes t).
    { unfold bytes. cbn [map concat bytes_of]. rewrite skipn_app, skipn_all2 by lia. replace (length acc + 2 - length acc) with 2 by lia. reflexivity. }
    rewrite E2. replace (sstart + length acc + 2) with (off + 2) by lia.
    specialize (IH (off + 2) false [] (off + 2) W eq_refl ltac:(congruence) ltac:(cbn; lia)). cbn [app] in IH.
    destruct (segs_head (off + 2) (bytes t)) as (x & r & E). rewrite E in *. cbn [map fst tl] in *. now rewrite IH.
  - subst t. unfold bytes. cbn [map concat bytes_of]. rewrite !app_nil_r. rewrite (segs_none _ _ NS). reflexivity.
  - destruct W as (Hd & NSd & -> & Hpf & W).
    assert (Eb : acc ++ bytes (Data (off + length d) d :: t) = (acc ++ d) ++ bytes t) by (unfold bytes; cbn [map concat bytes_of]; now rewrite app_assoc).
    rewrite Eb. cbn [sentinel_ends flat_map app].
    apply (IH (off + length d) (ends_fe d) (acc ++ d) sstart W).
    + apply no_stuff_app; auto. intros He. destruct acc as [|a0 acc']; [discriminate|]. apply Hpf. rewrite <- Hfe by discriminate. exact He.
    + intros _. apply ends_fe_app2. exact Hd.
    + rewrite app_length. lia.
Qed.

(* segments of a stream cut at a delimiter *)
Lemma find_stuff_app_first a b i : find_stuff a = Some i -> find_stuff (a ++ b) = Some i.
Proof.
  intros F. apply find_stuff_some in F as (pre & post & -> & <- & NS). rewrite <- app_assoc. cbn [app].
  now apply find_stuff_at.
Qed.
Lemma segs_app_delim : forall n a off b, length a <= n -> segs off (a ++ FE :: FD :: b) = segs off a ++ segs (off + length a + 2) b.
Proof.
  induction n as [|n IH]; intros a off b Hn.
  - destruct a; [|cbn in Hn; lia]. cbn [app length]. rewrite (segs_some off (FE :: FD :: b) 0 eq_refl). cbn [firstn skipn].
    rewrite (segs_none off [] eq_refl). cbn [app]. repeat f_equal; try lia.
  - destruct (find_stuff a) as [i|] eqn:F.
    + pose proof (find_stuff_bound a i F) as B.
      rewrite (segs_some off _ i (find_stuff_app_first a _ i F)), (segs_some off a i F). cbn [app]. f_equal.
      * rewrite firstn_app. replace (i - length a) with 0 by lia. cbn [firstn]. now rewrite app_nil_r.
      * rewrite skipn_app. replace (i + 2 - length a) with 0 by lia. cbn [skipn].
        rewrite IH by (rewrite skipn_length; lia). f_equal. f_equal. rewrite skipn_length. lia.
    + assert (Fs : find_stuff (a ++ FE :: FD :: b) = Some (length a)).
      { apply find_stuff_at. apply no_stuff_app; [exact F|reflexivity|intros _; reflexivity]. }
      rewrite (segs_some _ _ _ Fs), (segs_none off a F). cbn [app]. f_equal.
      * rewrite firstn_app, firstn_all, Nat.sub_diag. cbn [firstn]. now rewrite app_nil_r.
      * rewrite skipn_app, skipn_all2 by lia. replace (length a + 2 - length a) with 2 by lia. reflexivity.
Qed.

Section Survive.
Variables mi ms : nat.
Hypothesis Hmi : 0 < mi <= 252.
Hypothesis Hms : 0 < ms < RADIX * RADIX.
Variable max limit : N.

Lemma spec_walk_in l1 o e l2 m :
  (forall st seg, In (st, seg) (l1 ++ [(o, e)]) -> (N.of_nat st < limit)%N) -> e <> [] ->
  emit mi ms max e = Some m ->
  In (m, o, o + length e) (spec_walk mi ms max limit (l1 ++ (o, e) :: l2)).
Proof.
  induction l1 as [|[st seg] l1 IH]; intros Hlim He Hem; cbn [app Reader.spec_walk].
  - assert ((limit <=? N.of_nat o)%N = false) as -> by (apply N.leb_gt; apply (Hlim o e); cbn; now left).
    destruct e; [congruence|]. rewrite Hem. now left.
  - assert ((limit <=? N.of_nat st)%N = false) as -> by (apply N.leb_gt; apply (Hlim st seg); cbn; now left).
    assert (IH' : In (m, o, o + length e) (spec_walk mi ms max limit (l1 ++ (o, e) :: l2))).
    { apply IH; auto. intros st' seg' Hin. apply (Hlim st' seg'). cbn. now right. }
    destruct seg as [|s0 seg']; [exact IH'|].
    match goal with |- context[match ?x with Some _ => _ | None => _ end] => destruct x end; [right; exact IH'|exact IH'].
Qed.

Lemma segs_starts_bounded : forall n s off st seg, length s <= n -> In (st, seg) (segs off s) -> st <= off + length s.
Proof.
  induction n as [|n IH]; intros s off st seg Hn Hin.
  - destruct s; [|cbn in Hn; lia]. cbn in Hin. destruct Hin as [E|[]]. inversion E; subst. lia.
  - destruct (find_stuff s) as [i|] eqn:F.
    + pose proof (find_stuff_bound s i F). rewrite (segs_some _ _ _ F) in Hin. destruct Hin as [E|Hin]; [inversion E; subst; lia|].
      apply IH in Hin; [|rewrite skipn_length; lia]. rewrite skipn_length in Hin. lia.
    + rewrite (segs_none _ _ F) in Hin. destruct Hin as [E|[]]. inversion E; subst. lia.
Qed.

(* a valid record between two delimiters is returned intact, whatever bytes surround it *)
Theorem valid_record_survives junk1 junk2 m :
  (N.of_nat (length m) <= max)%N -> (N.of_nat (length junk1 + 2 + length (encode_ref mi ms m)) < limit)%N ->
  let e := encode_ref mi ms m in
  In (m, length junk1 + 2, length junk1 + 2 + length e)
     (spec_records mi ms max limit (junk1 ++ FE :: FD :: e ++ FE :: FD :: junk2)).
Proof.
  intros Hmax Hlim e. unfold spec_records, segments. fold (segs 0 (junk1 ++ FE :: FD :: e ++ FE :: FD :: junk2)).
  rewrite (segs_app_delim (length junk1) junk1 0 _ (le_n _)). rewrite (segs_app_delim (length e) e _ junk2 (le_n _)).
  assert (NSe : no_stuff e) by (apply C02_encode_ref_no_stuff; assumption).
  rewrite (segs_none _ e NSe). cbn [app]. cbn [Nat.add].
  assert (Ene : e <> []).
  { unfold e, encode_ref, stuffN. pose proof (stuff_nonempty (length m) mi ms m) as NE. destruct (stuff (S (length m)) mi ms m) as [|c r]; [congruence|].
    cbn [frame hdr]. discriminate. }
  apply spec_walk_in; auto.
  - intros st seg Hin. apply in_app_or in Hin as [Hin|[E|[]]].
    + pose proof (segs_starts_bounded (length junk1) junk1 0 st seg (le_n _) Hin). lia.
    + inversion E; subst. lia.
  - unfold emit, decode_seg. pose proof (decoder_exact mi ms e) as DE. unfold accept in DE. 
    pose proof (C01_byte_level mi ms Hmi Hms m [e] ltac:(cbn; now rewrite app_nil_r)) as RT.
    rewrite decode_pieces_accept, decode_any_segmentation in RT by exact I. cbn [concat] in RT. rewrite app_nil_r in RT.
    unfold accept in RT. destruct (run mi ms DInit e) as [[st out]|]; [|discriminate].
    destruct (dterminate st); [|discriminate]. inversion RT; subst out.
    assert ((N.of_nat (length m) <=? max)%N = true) as -> by lia. reflexivity.
Qed.
End Survive.
