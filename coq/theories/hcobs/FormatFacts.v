(* The format as a relation on chunk sequences: decode_ref accepts e with result m iff e is the
   framing of a well-formed chunk sequence (sizes within the limits, ending on a short chunk) whose
   unstuffing is m.  Plus the length bound of the reference encoding. *)
From Coq Require Import List NArith Bool Arith Lia.
From WP Require Import hcobs.Stuffing hcobs.EncChunks hcobs.EncChunksProofs hcobs.Dec hcobs.Format.
Import ListNotations.

Definition framed (first : bool) (cs : list (list byte)) : list byte := if first then frame cs else frame_rest cs.
Fixpoint wf_chunks (first : bool) (mi ms : nat) (cs : list (list byte)) : Prop :=
  match cs with
  | [] => False
  | [c] => length c < (if first then mi else ms)
  | c :: rest => length c <= (if first then mi else ms) /\ wf_chunks false mi ms rest
  end.

Lemma framed_cons first c rest : framed first (c :: rest) = hdr first (length c) ++ c ++ frame_rest rest.
Proof. destruct first; reflexivity. Qed.

Section Facts.
Variables mi ms : nat.
Hypothesis Hmi : 0 < mi <= 252.
Hypothesis Hms : 0 < ms < RADIX * RADIX.

Lemma read_hdr_sound first e n rest : read_hdr first mi ms e = Some (n, rest) ->
  e = hdr first n ++ rest /\ n <= (if first then mi else ms).
Proof.
  unfold read_hdr, hdr. destruct first.
  - destruct e as [|b r]; [discriminate|]. destruct (mi <? N.to_nat b) eqn:E; [discriminate|].
    intros H; inversion H; subst. apply Nat.ltb_ge in E. rewrite N2Nat.id. auto.
  - destruct e as [|b0 [|b1 r]]; try discriminate.
    destruct (RADIX <=? N.to_nat b0) eqn:E0; [discriminate|]. destruct (RADIX <=? N.to_nat b1) eqn:E1; [discriminate|].
    cbn [orb]. destruct (ms <? _) eqn:E; [discriminate|]. intros H; inversion H; subst.
    apply Nat.leb_gt in E0, E1. apply Nat.ltb_ge in E. split; [|exact E].
    assert (RADIX <> 0) by (unfold RADIX; lia).
    rewrite Nat.mod_add, Nat.mod_small, Nat.div_add, Nat.div_small, Nat.add_0_l, !N2Nat.id by assumption. reflexivity.
Qed.

Lemma unframe_sound : forall fuel first e cs, unframe fuel first mi ms e = Some cs ->
  e = framed first cs /\ wf_chunks first mi ms cs.
Proof.
  induction fuel as [|fuel IH]; intros first e cs H; [discriminate|]. cbn [unframe] in H.
  destruct (read_hdr first mi ms e) as [[n rest]|] eqn:ER; [|discriminate].
  apply read_hdr_sound in ER as (-> & Hn). destruct (length rest <? n) eqn:EL; [discriminate|]. apply Nat.ltb_ge in EL.
  assert (Lc : length (firstn n rest) = n) by (rewrite firstn_length; lia).
  destruct (skipn n rest) as [|x r'] eqn:ES.
  - destruct (n <? _) eqn:En; [|discriminate]. inversion H; subst cs. apply Nat.ltb_lt in En.
    rewrite framed_cons, Lc. cbn [frame_rest wf_chunks]. rewrite app_nil_r. split; [|lia].
    rewrite <- (firstn_skipn n rest) at 1. now rewrite ES, app_nil_r.
  - destruct (unframe fuel false mi ms (x :: r')) as [cs'|] eqn:EU; [|discriminate]. inversion H; subst cs.
    destruct (IH false _ _ EU) as (E' & W'). rewrite framed_cons, Lc. split.
    + rewrite <- (firstn_skipn n rest) at 1. rewrite ES, E'. reflexivity.
    + pose proof (unframe_nonempty mi ms _ _ _ _ EU) as NE. destruct cs' as [|c2 t2]; [congruence|].
      cbn [wf_chunks]. split; [lia|exact W'].
Qed.

Lemma wf_chunks_sizes first cs : wf_chunks first mi ms cs ->
  match cs with c :: _ => length c <= (if first then mi else ms) | [] => True end /\
  Forall (fun c => length c <= ms) (tl cs).
Proof.
  revert first. induction cs as [|c rest IH]; intros first W; [destruct W|]. cbn [tl].
  destruct rest as [|c2 t2]; cbn [wf_chunks] in W; [split; [lia|constructor]|].
  destruct W as (W1 & W2). split; [exact W1|]. destruct (IH false W2) as (A & B). constructor; [exact A|exact B].
Qed.
Lemma wf_chunks_unstuff first cs : wf_chunks first mi ms cs -> exists m, unstuff (if first then mi else ms) ms cs = Some m.
Proof.
  revert first. induction cs as [|c rest IH]; intros first W; [destruct W|].
  destruct rest as [|c2 t2]; cbn [wf_chunks] in W.
  - cbn [unstuff]. apply Nat.ltb_lt in W. rewrite W. eauto.
  - destruct W as (W1 & W2). destruct (IH false W2) as (m & Em). rewrite unstuff_cons by discriminate. rewrite Em. eauto.
Qed.

(* the decoder accepts precisely the framings of well-formed chunk sequences *)
Theorem format_iff e m :
  decode_ref mi ms e = Some m <-> exists cs, wf_chunks true mi ms cs /\ e = frame cs /\ unstuff mi ms cs = Some m.
Proof.
  split.
  - unfold decode_ref. destruct (unframe _ true mi ms e) as [cs|] eqn:EU; [|discriminate]. intros Hu.
    destruct (unframe_sound _ _ _ _ EU) as (E & W). exists cs. auto.
  - intros (cs & W & -> & Hu). rewrite <- decoder_exact.
    destruct (wf_chunks_sizes true cs W) as (S1 & S2).
    rewrite (run_frame mi ms Hmi Hms cs m S1 S2 Hu). reflexivity.
Qed.

(* ---- length of the reference encoding ---- *)
Definition cost (cs : list (list byte)) : nat := length (frame_rest cs).
(* upper bound on the number of full chunks of a message of n bytes whose first limit is L *)
Definition gfull (L n : nat) : nat := if n <? L then 0 else 1 + (n - L) / ms.

Lemma cost_cons c rest : cost (c :: rest) = 2 + length c + cost rest.
Proof. unfold cost. cbn [frame_rest hdr]. rewrite !app_length. cbn [length]. lia. Qed.

Lemma gfull_mono L n n' : L <= ms -> n' <= n -> gfull ms n' <= gfull L n.
Proof.
  intros HL Hn. unfold gfull. destruct (n' <? ms) eqn:E1; [lia|]. apply Nat.ltb_ge in E1.
  assert (n <? L = false) as -> by (apply Nat.ltb_ge; lia).
  assert ((n' - ms) / ms <= (n - L) / ms) by (apply Nat.div_le_mono; lia). lia.
Qed.
Lemma gfull_step L n : L <= n -> gfull L n = 1 + gfull ms (n - L).
Proof.
  intros H. unfold gfull. assert (n <? L = false) as -> by (apply Nat.ltb_ge; lia).
  destruct (n - L <? ms) eqn:E.
  - apply Nat.ltb_lt in E. rewrite Nat.div_small by lia. lia.
  - apply Nat.ltb_ge in E. replace (n - L) with ((n - L - ms) + 1 * ms) at 1 by lia.
    rewrite Nat.div_add by lia. lia.
Qed.

Lemma stuff_cost : forall fuel limit m, 0 < limit <= ms -> length m < fuel ->
  cost (stuff fuel limit ms m) <= length m + 2 + 2 * gfull limit (length m).
Proof.
  induction fuel as [|fuel IH]; intros limit m Hl Hf; [lia|]. cbn [stuff].
  destruct (find_stuff (firstn limit m)) as [i|] eqn:F.
  - apply find_some_len in F as (A & B). rewrite cost_cons, firstn_length.
    specialize (IH ms (skipn (i + 2) m) ltac:(lia) ltac:(rewrite skipn_length; lia)). rewrite skipn_length in IH.
    pose proof (gfull_mono limit (length m) (length m - (i + 2)) ltac:(lia) ltac:(lia)). lia.
  - destruct (limit <=? length m) eqn:E.
    + apply Nat.leb_le in E. rewrite cost_cons, firstn_length.
      specialize (IH ms (skipn limit m) ltac:(lia) ltac:(rewrite skipn_length; lia)). rewrite skipn_length in IH.
      rewrite (gfull_step limit (length m) E). lia.
    + apply Nat.leb_gt in E. rewrite cost_cons. unfold cost. cbn [frame_rest length]. lia.
Qed.

Lemma frame_length cs : cs <> [] -> length (frame cs) + 1 = cost cs.
Proof. destruct cs as [|c rest]; [congruence|]. intros _. rewrite cost_cons. cbn [frame hdr]. rewrite !app_length. cbn [length]. unfold cost. lia. Qed.

Theorem encode_ref_length m : mi <= ms ->
  length (encode_ref mi ms m) <= length m + 1 + 2 * gfull mi (length m).
Proof.
  intros H. unfold encode_ref, stuffN. pose proof (stuff_cost (S (length m)) mi m ltac:(lia) ltac:(lia)) as C.
  pose proof (frame_length (stuff (S (length m)) mi ms m) (stuff_nonempty _ _ _ _)). lia.
Qed.
End Facts.

(* in closed form: at most ceil(len / ms) full chunks when the first limit is at least 1 *)
Lemma gfull_ceil ms mi n : 0 < mi -> 0 < ms -> gfull ms mi n <= (n + (ms - 1)) / ms.
Proof.
  intros Hmi Hms. unfold gfull. destruct (n <? mi) eqn:E; [lia|]. apply Nat.ltb_ge in E.
  replace (n + (ms - 1)) with ((n - 1) + 1 * ms) by lia. rewrite Nat.div_add by lia.
  assert ((n - mi) / ms <= (n - 1) / ms) by (apply Nat.div_le_mono; lia). lia.
Qed.
