(* The memory-level encoder (hcobs/GeoEnc.v) refines the sink-level encoder (hcobs/EncSink.v): whenever both return, the
   iovec state is related to the sink (GeoSink.GS: the iovec's cells are the sink's up to renaming of hole ids) and the
   encoder states agree.  Hence every sink-level theorem (C01 C02 C07 C09: the output is the reference encoding, prefix
   stability, lag bound) holds of the bytes the geometry-faithful iovec hands out. *)
From Coq Require Import List NArith Bool Arith Lia.
From WP Require Import hcobs.Stuffing hcobs.EncChunks hcobs.EncChunksProofs hcobs.Dec hcobs.EncSink hcobs.SinkSim.
From WP Require Import iovec.Geo iovec.GeoMem iovec.GeoProofs iovec.GeoRefine iovec.GeoHistory iovec.GeoSink iovec.GeoWorld hcobs.GeoEnc hcobs.GeoEncInp.
Import ListNotations.
Open Scope nat_scope.

Definition ER (m : nat -> nat) (e : enc) (ge : genc) (s : sink) : Prop :=
  maxc e = gmaxc ge /\ cur e = gcur ge /\ mid e = gmid ge /\ bid e < nid s /\
  exists b, gbref ge = Some b /\ N.to_nat (Geo.blen b) = EncSink.blen e /\ N.to_nat (bend b) = m (bid e).

Lemma ends_fe_fast_eq l : ends_fe_fast l = ends_fe l.
Proof.
  unfold ends_fe_fast, ends_fe. destruct l as [|a t]; [reflexivity|].
  assert (Hne : a :: t <> []) by discriminate. destruct (exists_last Hne) as (l' & x & ->).
  rewrite last_last, rev_app_distr. reflexivity.
Qed.

Lemma sub_ext p off n : sub (SExt p) off n = SExt (firstn n (skipn off p)).
Proof. unfold sub, sl_skip, sl_keep, nfirstn, nskipn. now rewrite !Nat2N.id. Qed.

(* ---- register_patch hands out a handle of the pattern's length ---- *)
Lemma register_blen h pat g h' g' b : register_patch h pat g = Some (h', g', Some b) -> Geo.blen b = nlen pat.
Proof.
  unfold register_patch. destruct pat as [|x t]; [discriminate|].
  destruct (push_copy h (x :: t) g) as [[h1 g1]|]; [|discriminate].
  destruct (back (gslices g1)) as [l|]; [|discriminate].
  destruct (glogical g1 =? 0)%N; [discriminate|].
  destruct (back (gbackrefs g1)) as [q|].
  - match goal with |- context[if ?c then _ else _] => destruct c end; [discriminate|]. intros E; inversion E; reflexivity.
  - intros E; inversion E; reflexivity.
Qed.

Lemma sim_register m s h g pat h' g' b : GS m s h g -> pat <> [] -> register_patch h pat g = Some (h', g', b) ->
  exists m' b0, b = Some b0 /\ GS m' (fst (s_register s (length pat))) h' g' /\
                N.to_nat (bend b0) = m' (nid s) /\ N.to_nat (Geo.blen b0) = length pat.
Proof.
  intros G Hne E. destruct (geo_sink_register m s h g pat h' g' b G Hne E) as (m' & G' & Hb & _).
  destruct b as [b0|]; [|discriminate]. cbn [option_map] in Hb. inversion Hb as [Hb'].
  exists m', b0. split; [reflexivity|]. split; [exact G'|]. split; [exact Hb'|].
  rewrite (register_blen _ _ _ _ _ _ E). unfold nlen. apply Nat2N.id.
Qed.

Lemma sim_new_gen m s h g n pat ge h' g' (mx : nat) :
  GS m s h g -> pat <> [] -> length pat = n ->
  match register_patch h pat g with
  | Some (h', g', b) => Some ({| gmaxc := mx; gcur := 0; gmid := false; gbref := b |}, h', g')
  | None => None
  end = Some (ge, h', g') ->
  let '(s', id) := s_register s n in
  exists m', GS m' s' h' g' /\ ER m' {| maxc := mx; cur := 0; mid := false; bid := id; EncSink.blen := n |} ge s'.
Proof.
  intros G Hne Hn E. destruct (register_patch h pat g) as [[[h1 g1] b]|] eqn:ER0; [|discriminate].
  inversion E; subst ge h1 g1; clear E.
  destruct (sim_register _ _ _ _ _ _ _ _ G Hne ER0) as (m' & b0 & -> & G' & Hb & Hl).
  rewrite Hn in *. unfold s_register in *. cbn [fst] in G'.
  exists m'. split; [exact G'|]. unfold ER. cbn [maxc cur mid bid EncSink.blen gmaxc gcur gmid gbref nid].
  repeat split; try lia. exists b0. auto.
Qed.

Lemma sim_new m s h g mi ge h' g' : GS m s h g -> ge_new h g mi = Some (ge, h', g') ->
  let '(e, s') := enc_new s mi in exists m', GS m' s' h' g' /\ ER m' e ge s'.
Proof.
  intros G E. unfold ge_new in E. unfold enc_new.
  pose proof (sim_new_gen m s h g 1 [0%N] ge h' g' mi G ltac:(discriminate) eq_refl E) as H.
  destruct (s_register s 1) as [s' id]. exact H.
Qed.
Lemma sim_new_subsequent m s h g ms ge h' g' : GS m s h g -> ge_new_subsequent h g ms = Some (ge, h', g') ->
  let '(e, s') := enc_new_subsequent s ms in exists m', GS m' s' h' g' /\ ER m' e ge s'.
Proof.
  intros G E. unfold ge_new_subsequent in E. unfold enc_new_subsequent.
  pose proof (sim_new_gen m s h g 2 [0%N; 0%N] ge h' g' ms G ltac:(discriminate) eq_refl E) as H.
  destruct (s_register s 2) as [s' id]. exact H.
Qed.

(* ---- encode_header ---- *)
Lemma sim_header m e ge s h g n s' h' g' : GS m s h g -> ER m e ge s ->
  encode_header n s e = Ok s' -> ge_encode_header n h g (gbref ge) = Some (h', g') -> GS m s' h' g'.
Proof.
  intros G (_ & _ & _ & Hid & b & Eb & Hl & Hm) E1 E2. unfold encode_header in E1. unfold ge_encode_header in E2.
  rewrite Eb in E2. cbn [bref_len] in E2. rewrite Hl in E2.
  destruct (RADIX * RADIX <=? n); [discriminate|].
  destruct (negb ((1 <=? EncSink.blen e) && (EncSink.blen e <=? 2))); [discriminate|].
  destruct (negb (N.eqb (nth (EncSink.blen e) [N.of_nat (n mod RADIX); N.of_nat (n / RADIX); 0%N] 0%N) 0%N)); [discriminate|].
  eapply geo_sink_backfill; eauto.
Qed.

(* ---- write / copy / the held-back FE ---- *)
Lemma ER_push m e ge s bs c : ER m e ge s -> ER m {| maxc := maxc e; cur := c; mid := mid e; bid := bid e; EncSink.blen := EncSink.blen e |}
                                                  (with_cur ge c) (s_push s bs).
Proof. intros (A & B & C & D & E). unfold ER. cbn. repeat split; auto. Qed.

Lemma GS_good m s h g : GS m s h g -> GInv h g /\ BInv g.
Proof. intros (I & p & S & Rs & PI). split; [exact I|]. eapply BInv_of_pipe; eauto. Qed.

(* OwningIovec::push of any in-bounds slice that overlaps no slice of the iovec *)
Lemma geo_sink_push_sl m s h g sl h' g' : GS m s h g -> sl_ok h sl ->
  (forall s0, In s0 (gslices g) -> sl_before s0 sl) ->
  push h sl g = Some (h', g') -> GS m (s_push s (sl_bytes h sl)) h' g'.
Proof.
  intros G Hok Hd E. unfold push in E.
  match type of E with (if ?c then _ else _) = _ => destruct c end.
  - eapply geo_sink_push_copy; eauto.
  - destruct (push_borrowed sl g) as [gx|] eqn:EB; [|discriminate]. inversion E; subst h' gx.
    destruct G as (I & p & S & Rs & PI).
    destruct (push_borrowed_gen h g p sl g' I Rs Hok Hd EB) as (I' & merged & R').
    split; [exact I'|]. exists (Pipe.push merged (sl_bytes h sl) p). split; [now apply sim_push|].
    split; [exact R'|now apply PipeProofs2.push_inv].
Qed.

Lemma sub_ok h g inp p off n : InpOK h g inp p off -> 0 < n -> off + n <= length p ->
  sl_ok h (sub inp off n) /\ (forall s0, In s0 (gslices g) -> sl_before s0 (sub inp off n)) /\
  sl_bytes h (sub inp off n) = firstn n (skipn off p).
Proof.
  intros IO Hn Hle. destruct inp as [c o k|q].
  - unfold sub. cbn [sl_skip sl_keep]. exact (InpOK_sub_ok h g c o k p off n IO Hn Hle).
  - cbn [InpOK] in IO. subst q. rewrite sub_ext. cbn [sl_ok sl_bytes sl_before]. split; [|split; [|reflexivity]].
    + intros Hnil. apply (f_equal (@length _)) in Hnil. rewrite firstn_length, skipn_length in Hnil. cbn [length] in Hnil. lia.
    + intros [? ? ?|?] _; exact Logic.I.
Qed.

Lemma sim_write m e ge s h g copy inp p off n e' s' ge' h' g' : GS m s h g -> ER m e ge s -> InpOK h g inp p off ->
  enc_write e s (firstn n (skipn off p)) = Ok (e', s') -> length (firstn n (skipn off p)) = n ->
  ge_write copy inp p ge h g off n = Some (ge', h', g') ->
  GS m s' h' g' /\ ER m e' ge' s' /\ InpOK h' g' inp p (off + n).
Proof.
  intros G R IO E1 Hlen E2. unfold enc_write in E1. unfold ge_write in E2. unfold byte in *.
  destruct n as [|n'].
  - cbn [firstn] in E1. inversion E1; inversion E2; subst. rewrite Nat.add_0_r. auto.
  - set (n := S n') in *. destruct (firstn n (skipn off p)) as [|x t] eqn:EF; [cbn in Hlen; lia|]. rewrite <- EF in *.
    rewrite Hlen in E1.
    assert (Hle : off + n <= length p).
    { rewrite firstn_length, skipn_length in Hlen. lia. }
    assert (EP : exists h1 g1, (if copy then push_copy h (firstn n (skipn off p)) g else push h (sub inp off n) g) = Some (h1, g1)).
    { destruct (if copy then _ else _) as [[h1 g1]|]; [eauto|discriminate]. }
    destruct EP as (h1 & g1 & EP). rewrite EP in E2.
    destruct (GS_good _ _ _ _ G) as (I & B).
    assert (G1 : GS m (s_push s (firstn n (skipn off p))) h1 g1 /\ InpOK h1 g1 inp p (off + n)).
    { destruct copy.
      - split; [eapply geo_sink_push_copy; eauto|].
        apply (InpOK_advance _ _ _ _ off); [|lia]. eapply InpOK_effect; [|exact IO]. eapply effect_push_copy; eauto.
      - destruct (sub_ok h g inp p off n IO ltac:(unfold n; lia) Hle) as (Hok & Hd & Hb). split.
        + rewrite <- Hb. eapply geo_sink_push_sl; eauto.
        + unfold sub in EP. eapply InpOK_push_sub; eauto. unfold n; lia. }
    destruct G1 as (G1 & IO1).
    destruct R as (A & B0 & C & D) eqn:ER0. rewrite <- A, <- B0 in E2.
    destruct (maxc e <? cur e + n); [discriminate|]. inversion E1; inversion E2; subst. split; [exact G1|].
    split; [|exact IO1]. rewrite B0. apply ER_push. unfold ER. auto.
Qed.

Lemma sim_partial m e ge s h g e' s' ge' h' g' : GS m s h g -> ER m e ge s ->
  enc_write_partial_stuff e s = Ok (e', s') -> ge_write_partial_stuff ge h g = Some (ge', h', g') ->
  GS m s' h' g' /\ ER m e' ge' s'.
Proof.
  intros G R E1 E2. unfold enc_write_partial_stuff in E1. unfold ge_write_partial_stuff in E2.
  destruct (push_copy h [FE] g) as [[h1 g1]|] eqn:EP; [|discriminate].
  pose proof (geo_sink_push_copy m s h g [FE] h1 g1 G EP) as G1.
  destruct R as (A & B & C & D). rewrite <- A, <- B in E2.
  destruct (maxc e <? cur e + 1); [discriminate|]. inversion E1; inversion E2; subst. split; [exact G1|].
  rewrite B. apply ER_push. unfold ER. auto.
Qed.

(* ---- closing a chunk: backfill the header, register the next one ---- *)
Lemma sim_close m e ge s h g ms s2 h2 g2 ge3 h3 g3 : GS m s h g -> ER m e ge s ->
  encode_header (cur e) s e = Ok s2 -> ge_encode_header (gcur ge) h g (gbref ge) = Some (h2, g2) ->
  ge_new_subsequent h2 g2 ms = Some (ge3, h3, g3) ->
  let '(e3, s3) := enc_new_subsequent s2 ms in exists m', GS m' s3 h3 g3 /\ ER m' e3 ge3 s3.
Proof.
  intros G R E1 E2 E3. assert (Hc : cur e = gcur ge) by (destruct R as (_ & B & _); exact B). rewrite <- Hc in E2.
  pose proof (sim_header _ _ _ _ _ _ _ _ _ _ G R E1 E2) as G2.
  exact (sim_new_subsequent m s2 h2 g2 ms ge3 h3 g3 G2 E3).
Qed.

(* ---- the not yet consumed input is untouched by the copies and placeholder writes ---- *)
Lemma inp_partial m s h g ge ge' h' g' inp p off : GS m s h g ->
  ge_write_partial_stuff ge h g = Some (ge', h', g') -> InpOK h g inp p off -> InpOK h' g' inp p off.
Proof.
  intros G E IO. unfold ge_write_partial_stuff in E. destruct (push_copy h [FE] g) as [[h1 g1]|] eqn:EP; [|discriminate].
  destruct (gmaxc ge <? gcur ge + 1); [discriminate|]. inversion E; subst.
  destruct (GS_good _ _ _ _ G) as (I & B). eapply InpOK_effect; [|exact IO]. eapply effect_push_copy; eauto.
Qed.
Lemma inp_header m s h g n b h' g' inp p off : GS m s h g ->
  ge_encode_header n h g (Some b) = Some (h', g') -> InpOK h g inp p off -> InpOK h' g' inp p off.
Proof.
  intros G E IO. unfold ge_encode_header in E.
  destruct (RADIX * RADIX <=? n); [discriminate|].
  match type of E with (if ?c then _ else _) = _ => destruct c; [discriminate|] end.
  match type of E with (if ?c then _ else _) = _ => destruct c; [discriminate|] end.
  destruct (GS_good _ _ _ _ G) as (I & B). eapply InpOK_backfill; eauto.
Qed.
Lemma inp_new_subsequent m s h g ms ge h' g' inp p off : GS m s h g ->
  ge_new_subsequent h g ms = Some (ge, h', g') -> InpOK h g inp p off -> InpOK h' g' inp p off.
Proof.
  intros G E IO. unfold ge_new_subsequent in E.
  destruct (register_patch h [0%N; 0%N] g) as [[[h1 g1] b]|] eqn:ER0; [|discriminate]. inversion E; subst.
  destruct (GS_good _ _ _ _ G) as (I & B). eapply InpOK_effect; [|exact IO]. eapply effect_register; eauto.
Qed.

(* ---- consume_once ---- *)
Lemma sim_consume_once m e ge s h g copy ms inp p off e' s' c ge' h' g' c' :
  GS m s h g -> ER m e ge s -> InpOK h g inp p off ->
  consume_once_s ms e s (skipn off p) = Ok (e', s', c) ->
  ge_consume_once copy ms inp p ge h g off = Some (ge', h', g', c') ->
  c = c' /\ exists m', GS m' s' h' g' /\ ER m' e' ge' s' /\ InpOK h' g' inp p (off + c).
Proof.
  intros G R IO E1 E2. unfold consume_once_s in E1. unfold ge_consume_once in E2. unfold byte in *.
  destruct (skipn off p) as [|b0 y0] eqn:Ey; [discriminate|]. cbv beta iota in E1, E2. rewrite <- Ey in *.
  assert (R0 := R). destruct R0 as (HM & HC & HD & _). rewrite <- HM, <- HC, <- HD in E2.
  destruct (negb (cur e + (if mid e then 1 else 0) <? maxc e)); [discriminate|].
  (* closing a chunk from any related state *)
  assert (Hclose : forall (e2 : enc) (s2 : sink) (ge2 : genc) (h2 : heap) (g2 : giov) k off2,
    GS m s2 h2 g2 -> ER m e2 ge2 s2 -> InpOK h2 g2 inp p off2 -> off2 <= off + k ->
    match encode_header (cur e2) s2 e2 with
    | Panic => Panic
    | Ok s3 => let '(e3, s4) := enc_new_subsequent s3 ms in Ok (e3, s4, k)
    end = Ok (e', s', c) ->
    match ge_encode_header (gcur ge2) h2 g2 (gbref ge2) with
    | None => None
    | Some (h3, g3) => match ge_new_subsequent h3 g3 ms with
                       | None => None
                       | Some (e4, h4, g4) => Some (e4, h4, g4, k)
                       end
    end = Some (ge', h', g', c') ->
    c = c' /\ exists m', GS m' s' h' g' /\ ER m' e' ge' s' /\ InpOK h' g' inp p (off + c)).
  { intros e2 s2 ge2 h2 g2 k off2 G2 R2 IO2 Hoff X1 X2.
    destruct (encode_header (cur e2) s2 e2) as [s3|] eqn:EH; [|discriminate].
    destruct (ge_encode_header (gcur ge2) h2 g2 (gbref ge2)) as [[h3 g3]|] eqn:GH; [|discriminate].
    destruct (ge_new_subsequent h3 g3 ms) as [[[ge4 h4] g4]|] eqn:GN; [|discriminate].
    pose proof (sim_close m e2 ge2 s2 h2 g2 ms s3 h3 g3 ge4 h4 g4 G2 R2 EH GH GN) as H.
    assert (Hc2 : cur e2 = gcur ge2) by (destruct R2 as (_ & B & _); exact B).
    assert (G3 : GS m s3 h3 g3) by (rewrite <- Hc2 in GH; exact (sim_header _ _ _ _ _ _ _ _ _ _ G2 R2 EH GH)).
    assert (IO3 : InpOK h3 g3 inp p off2).
    { destruct R2 as (_ & _ & _ & _ & b & Eb & _). rewrite Eb in GH. exact (inp_header m s2 h2 g2 (gcur ge2) b h3 g3 inp p off2 G2 GH IO2). }
    pose proof (inp_new_subsequent m s3 h3 g3 ms ge4 h4 g4 inp p off2 G3 GN IO3) as IO4.
    destruct (enc_new_subsequent s3 ms) as [e3 s4]. inversion X1; inversion X2; subst. split; [reflexivity|].
    destruct H as (m' & G' & R'). exists m'. split; [exact G'|]. split; [exact R'|].
    eapply InpOK_advance; [exact IO4|exact Hoff]. }
  destruct (mid e && N.eqb b0 FD)%bool.
  { (* the held-back FE completes a stuff sequence *)
    rewrite HC in E2. exact (Hclose e s ge h g 1 off G R IO ltac:(lia) E1 E2). }
  destruct (negb (cur e <? maxc e)); [discriminate|].
  (* the held-back FE is written first *)
  assert (HW : exists e1 s1 ge1 h1 g1,
    (if mid e then match enc_write_partial_stuff e s with
                   | Panic => Panic
                   | Ok (e1, s1) => if negb (cur e1 <? maxc e1) then Panic else Ok (e1, s1) end
     else Ok (e, s)) = Ok (e1, s1) /\
    (if mid e then match ge_write_partial_stuff ge h g with
                   | None => None
                   | Some (e1, h1, g1) => if negb (gcur e1 <? gmaxc e1) then None else Some (e1, h1, g1) end
     else Some (ge, h, g)) = Some (ge1, h1, g1) /\ GS m s1 h1 g1 /\ ER m e1 ge1 s1 /\ InpOK h1 g1 inp p off).
  { destruct (mid e).
    - destruct (enc_write_partial_stuff e s) as [[e1 s1]|] eqn:EP; [|discriminate].
      destruct (ge_write_partial_stuff ge h g) as [[[ge1 h1] g1]|] eqn:GP; [|discriminate].
      destruct (sim_partial _ _ _ _ _ _ _ _ _ _ _ G R EP GP) as (G1 & R1).
      pose proof (inp_partial m s h g ge ge1 h1 g1 inp p off G GP IO) as IO1.
      assert (R10 := R1). destruct R10 as (A1 & B1 & _). rewrite <- A1, <- B1.
      destruct (negb (cur e1 <? maxc e1)); [discriminate|]. exists e1, s1, ge1, h1, g1. auto.
    - exists e, s, ge, h, g. auto. }
  destruct HW as (e1 & s1 & ge1 & h1 & g1 & W1 & W2 & G1 & R1 & IO1). rewrite W1 in E1. rewrite W2 in E2.
  assert (R10 := R1). destruct R10 as (HM1 & HC1 & HD1 & _). rewrite <- HM1, <- HC1 in E2.
  set (remaining := maxc e1 - cur e1) in *. set (window := firstn remaining (skipn off p)) in *.
  destruct window as [|wb wt] eqn:EW; [discriminate|]. rewrite <- EW in *.
  assert (LWin : length window <= remaining) by (unfold window; rewrite firstn_length; lia).
  assert (LWy : length window <= length (skipn off p)) by (unfold window; rewrite firstn_length; lia).
  destruct (find_stuff window) as [idx|] eqn:F.
  - apply find_some_len in F as (F1 & F2). unfold byte in *.
    destruct (enc_write e1 s1 (firstn idx (skipn off p))) as [[e2 s2]|] eqn:EWr; [|discriminate].
    destruct (ge_write copy inp p ge1 h1 g1 off idx) as [[[ge2 h2] g2]|] eqn:GWr; [|discriminate].
    destruct (sim_write m e1 ge1 s1 h1 g1 copy inp p off idx e2 s2 ge2 h2 g2 G1 R1 IO1 EWr ltac:(rewrite firstn_length; lia) GWr) as (G2 & R2 & IO2).
    exact (Hclose e2 s2 ge2 h2 g2 (idx + 2) (off + idx) G2 R2 IO2 ltac:(lia) E1 E2).
  - destruct (length window =? remaining) eqn:EL.
    + apply Nat.eqb_eq in EL.
      destruct (enc_write e1 s1 window) as [[e2 s2]|] eqn:EWr; [|discriminate].
      destruct (ge_write copy inp p ge1 h1 g1 off remaining) as [[[ge2 h2] g2]|] eqn:GWr; [|discriminate].
      destruct (sim_write m e1 ge1 s1 h1 g1 copy inp p off remaining e2 s2 ge2 h2 g2 G1 R1 IO1 EWr ltac:(fold window; lia) GWr) as (G2 & R2 & IO2).
      exact (Hclose e2 s2 ge2 h2 g2 remaining (off + remaining) G2 R2 IO2 ltac:(lia) E1 E2).
    + rewrite ends_fe_fast_eq in E2.
      set (m' := ends_fe window) in *. set (tc := if m' then length window - 1 else length window) in *.
      assert (Rm : ER m (set_mid e1 m') (gset_mid ge1 m') s1).
      { destruct R1 as (A & B & C & D). unfold ER. cbn. auto. }
      destruct (enc_write (set_mid e1 m') s1 (firstn tc (skipn off p))) as [[e2 s2]|] eqn:EWr; [|discriminate].
      destruct (ge_write copy inp p (gset_mid ge1 m') h1 g1 off tc) as [[[ge2 h2] g2]|] eqn:GWr; [|discriminate].
      assert (Htc : length (firstn tc (skipn off p)) = tc).
      { rewrite firstn_length. unfold tc. destruct m'; lia. }
      destruct (sim_write m _ _ s1 h1 g1 copy inp p off tc e2 s2 ge2 h2 g2 G1 Rm IO1 EWr Htc GWr) as (G2 & R2 & IO2).
      assert (R20 := R2). destruct R20 as (HM2 & HC2 & HD2 & _). rewrite <- HM2, <- HC2, <- HD2 in E2.
      destruct (negb (cur e2 + (if mid e2 then 1 else 0) <? maxc e2)); [discriminate|].
      inversion E1; inversion E2; subst. split; [reflexivity|]. exists m. split; [exact G2|]. split; [exact R2|].
      eapply InpOK_advance; [exact IO2|]. unfold tc. destruct m'; lia.
Qed.

(* ---- the encode loop, one piece, terminate ---- *)
Lemma sim_loop copy ms inp p : forall fuel m e ge s h g off e' s' ge' h' g',
  GS m s h g -> ER m e ge s -> InpOK h g inp p off ->
  encode_loop_s fuel ms e s (skipn off p) = Ok (e', s') ->
  ge_loop fuel copy ms inp p ge h g off = Some (ge', h', g') ->
  exists m', GS m' s' h' g' /\ ER m' e' ge' s'.
Proof.
  induction fuel as [|fuel IH]; intros m e ge s h g off e' s' ge' h' g' G R IO E1 E2; cbn [encode_loop_s ge_loop] in *; unfold byte in *.
  - inversion E1; inversion E2; subst. eauto.
  - destruct (skipn off p) as [|b0 y0] eqn:Ey; [inversion E1; inversion E2; subst; eauto|]. rewrite <- Ey in *.
    destruct (consume_once_s ms e s (skipn off p)) as [[[e1 s1] c]|] eqn:C1; [|discriminate].
    destruct (ge_consume_once copy ms inp p ge h g off) as [[[[ge1 h1] g1] c']|] eqn:C2; [|discriminate].
    destruct (sim_consume_once m e ge s h g copy ms inp p off e1 s1 c ge1 h1 g1 c' G R IO C1 C2) as (<- & m1 & G1 & R1 & IO1).
    rewrite skipn_length in E1.
    destruct (negb (c <=? length p - off)); [discriminate|].
    assert (Hm : mid e = gmid ge) by (destruct R as (_ & _ & X & _); exact X).
    assert (Hm1 : mid e1 = gmid ge1) by (destruct R1 as (_ & _ & X & _); exact X).
    rewrite <- Hm, <- Hm1 in E2.
    destruct (negb ((0 <? c) || negb (mid e1) && mid e)); [discriminate|].
    rewrite GeoMem.skipn_skipn' in E1.
    exact (IH m1 e1 ge1 s1 h1 g1 (off + c) e' s' ge' h' g' G1 R1 IO1 E1 E2).
Qed.

Lemma sim_piece copy ms inp p m e ge s h g e' s' ge' h' g' :
  GS m s h g -> ER m e ge s -> InpOK h g inp p 0 -> sl_bytes h inp = p ->
  encode_piece_s ms e s p = Ok (e', s') ->
  ge_piece copy ms inp ge h g = Some (ge', h', g') ->
  exists m', GS m' s' h' g' /\ ER m' e' ge' s'.
Proof.
  intros G R IO Hp E1 E2. unfold encode_piece_s in E1. unfold ge_piece in E2. rewrite Hp in E2.
  exact (sim_loop copy ms inp p _ m e ge s h g 0 e' s' ge' h' g' G R IO E1 E2).
Qed.

Lemma sim_terminate m e ge s h g s' h' g' : GS m s h g -> ER m e ge s ->
  terminate_s e s = Ok s' -> ge_terminate ge h g = Some (h', g') -> GS m s' h' g'.
Proof.
  intros G R E1 E2. unfold terminate_s in E1. unfold ge_terminate in E2.
  assert (Hm : mid e = gmid ge) by (destruct R as (_ & _ & X & _); exact X). rewrite <- Hm in E2.
  assert (HW : exists e1 s1 ge1 h1 g1,
    (if mid e then enc_write_partial_stuff e s else Ok (e, s)) = Ok (e1, s1) /\
    (if mid e then ge_write_partial_stuff ge h g else Some (ge, h, g)) = Some (ge1, h1, g1) /\ GS m s1 h1 g1 /\ ER m e1 ge1 s1).
  { destruct (mid e).
    - destruct (enc_write_partial_stuff e s) as [[e1 s1]|] eqn:EP; [|discriminate].
      destruct (ge_write_partial_stuff ge h g) as [[[ge1 h1] g1]|] eqn:GP; [|discriminate].
      destruct (sim_partial _ _ _ _ _ _ _ _ _ _ _ G R EP GP) as (G1 & R1). exists e1, s1, ge1, h1, g1. auto.
    - exists e, s, ge, h, g. auto. }
  destruct HW as (e1 & s1 & ge1 & h1 & g1 & W1 & W2 & G1 & R1). rewrite W1 in E1. rewrite W2 in E2.
  assert (R10 := R1). destruct R10 as (HM1 & HC1 & _). rewrite <- HM1, <- HC1 in E2.
  destruct (negb (cur e1 <? maxc e1)); [discriminate|].
  rewrite HC1 in E2. rewrite HC1 in E1 at 1.
  assert (E1' : encode_header (cur e1) s1 e1 = Ok s') by (rewrite HC1; exact E1).
  rewrite <- HC1 in E2. exact (sim_header m e1 ge1 s1 h1 g1 (cur e1) s' h' g' G1 R1 E1' E2).
Qed.

(* ---- anchored input: read_n into the iovec's own arena, encode the slice piecewise, queue its anchor ---- *)
Lemma GS_set_cache_frame m s h g h1 k1 : GS m s h g -> heap_ok h1 -> cache_ok h1 k1 ->
  (forall s0, sl_ok h s0 -> sl_bytes h1 s0 = sl_bytes h s0 /\ sl_ok h1 s0) -> GS m s h1 (set_cache k1 g).
Proof.
  intros (I & p & S & Rs & PI) Hh Hk F. destruct (frame_refines h h1 g p k1 I Rs Hh Hk F) as (I' & R').
  split; [exact I'|]. exists p. auto.
Qed.

Lemma sim_read_n m s h g got count h1 k1 a : GS m s h g ->
  as_read_n h (gcache_ g) got count = Some (h1, k1, a) ->
  GS m s h1 (set_cache k1 g) /\
  ((as_len a =? 0)%N = false -> InpOK h1 (set_cache k1 g) (as_sl a) got 0 /\ sl_bytes h1 (as_sl a) = got).
Proof.
  intros G E. unfold as_read_n in E.
  destruct (arena_read_n h (gcache_ g) got count) as [[[[h2 k2] sl] an]|] eqn:EA; [|discriminate].
  inversion E; subst h2 k2 a; clear E. cbn [as_sl as_len].
  destruct (GS_good _ _ _ _ G) as (I & B).
  destruct (N.eq_dec count 0) as [->|Hnz].
  - unfold arena_read_n in EA. cbn in EA. inversion EA; subst h1 k1 sl an. split.
    + apply (GS_set_cache_frame m s h g h (gcache_ g) G (gi_heap h g I) (gi_cache h g I)). auto.
    + cbn. discriminate.
  - assert (Hle : (nlen got <= count)%N).
    { unfold arena_read_n in EA. destruct (count =? 0)%N eqn:E0; [apply N.eqb_eq in E0; lia|].
      destruct (count <? nlen got)%N eqn:E1; [discriminate|]. apply N.ltb_ge in E1. exact E1. }
    assert (Hcp : (0 < count)%N) by lia.
    destruct (arena_read_n_spec _ _ _ _ _ _ _ _ (gi_cache h g I) (gi_heap h g I) Hcp Hle EA)
      as (kk & -> & Hk' & Hh' & HL & F & Hb & Esl & Hbump & Hok & Hend & _).
    split; [exact (GS_set_cache_frame m s h g h1 (Some kk) G Hh' Hk' F)|].
    intros Hpos. split; [|exact Hb]. subst sl. cbn [sl_len] in Hpos. apply N.eqb_neq in Hpos.
    assert (Hne : got <> []) by (intros ->; cbn in Hpos; lia).
    specialize (Hok Hne). cbn [InpOK set_cache gslices]. split; [reflexivity|]. split.
    + rewrite N.add_0_r, N.sub_0_r. cbn [skipn]. exact Hb.
    + intros _. unfold rest. rewrite N.add_0_r, N.sub_0_r. cbn [sl_ok] in Hok. split; [exact Hok|].
      intros s0 Hin. pose proof (gi_slices h g I) as Fs. rewrite Forall_forall in Fs. pose proof (Fs _ Hin) as O0.
      destruct s0 as [c0 o0 l0|bs]; cbn [rdisj]; [|exact Logic.I]. intros Ec. right.
      specialize (Hend (SArena c0 o0 l0) O0). cbn [sl_chunk sl_end] in Hend. apply Hend. now rewrite Ec.
Qed.

Lemma ER_same_nid m e ge s s' : nid s' = nid s -> ER m e ge s -> ER m e ge s'.
Proof. intros H (A & B & C & D & E). unfold ER. rewrite H. auto. Qed.

Lemma GS_push_anchor m s h g a : GS m s h g -> GS m s h (push_anchor a g).
Proof.
  intros (I & p & S & Rs & PI). destruct (push_anchor_refines h g p a I Rs) as (I' & R'). split; [exact I'|]. exists p. auto.
Qed.

(* ---- whole histories ---- *)
From WP Require Import hcobs.EncSinkProofs.
From WP Require iovec.Pipe iovec.PipeProofs.

(* a reader never delivers more than it was asked for (the contract of std::io::Read) *)
Definition simple (o : geop) : Prop :=
  match o with GEBorrow _ | GECopy _ | GERd _ => True | GERead got count => (nlen got <= count)%N | _ => False end.
Definition gpieces (ops : list geop) : list (list byte) :=
  flat_map (fun o => match o with GEBorrow p | GECopy p => [p] | GERead got _ => [got] | _ => [] end) ops.

(* run a history; the bytes the consumer's Reads returned, in order *)
Fixpoint ge_run (ms : nat) (e : genc) (h : heap) (g : giov) (ops : list geop) : option (genc * heap * giov * list N) :=
  match ops with
  | [] => Some (e, h, g, [])
  | o :: r =>
    match ge_step ms e h g o with
    | None => None
    | Some (e1, h1, g1, ret) =>
      match ge_run ms e1 h1 g1 r with
      | None => None
      | Some (e2, h2, g2, out) => Some (e2, h2, g2, (match o with GERd _ => ret | _ => [] end) ++ out)
      end
    end
  end.

Section Hist.
Variables mi ms : nat.
Hypothesis Hmi : 0 < mi <= 252.
Hypothesis Hms : 0 < ms < RADIX * RADIX.

Lemma fold_drain_sim e2 e : forall ks s, Sim mi ms e2 s e -> Sim mi ms e2 (fold_left s_drain ks s) e.
Proof. induction ks as [|k ks IH]; intros s S; cbn [fold_left]; [exact S|]. apply IH. now apply drain_sim. Qed.
Lemma fold_drain_nid : forall ks s, nid (fold_left s_drain ks s) = nid s.
Proof. induction ks as [|k ks IH]; intros s; cbn [fold_left]; [reflexivity|]. rewrite IH. reflexivity. Qed.

Lemma sim_run : forall ops m e2 ge s h g est x ge' h' g' out,
  Forall simple ops -> GS m s h g -> ER m e2 ge s -> Sim mi ms e2 s est -> Rep mi ms est x ->
  ge_run ms ge h g ops = Some (ge', h', g', out) ->
  exists m' e2' s' est', GS m' s' h' g' /\ ER m' e2' ge' s' /\ Sim mi ms e2' s' est' /\
                         Rep mi ms est' (x ++ concat (gpieces ops)) /\ taken s' = taken s ++ out.
Proof.
  induction ops as [|o r IH]; intros m e2 ge s h g est x ge' h' g' out Hs G R S Rp E; cbn [ge_run] in E.
  - inversion E; subst. exists m, e2, s, est. cbn [gpieces flat_map concat]. rewrite !app_nil_r. auto.
  - inversion Hs as [|? ? Ho Hr]; subst.
    destruct (ge_step ms ge h g o) as [[[[ge1 h1] g1] ret]|] eqn:ES; [|discriminate].
    destruct (ge_run ms ge1 h1 g1 r) as [[[[ge2 h2] g2] out2]|] eqn:ER2; [|discriminate].
    inversion E; subst ge2 h2 g2 out; clear E.
    assert (Hpiece : forall copy p ge0 h0 g0 inp gex hx gx m0, GS m0 s h0 g0 -> ER m0 e2 ge0 s -> InpOK h0 g0 inp p 0 -> sl_bytes h0 inp = p ->
      ge_piece copy ms inp ge0 h0 g0 = Some (gex, hx, gx) ->
      exists m1 e21 s1, GS m1 s1 hx gx /\ ER m1 e21 gex s1 /\ Sim mi ms e21 s1 (encode_piece ms est p) /\ taken s1 = taken s).
    { intros copy p ge0 h0 g0 inp gex hx gx m0 G0 R0 IO0 Hb0 EP.
      destruct (encode_piece_sim mi ms Hmi Hms e2 s est x p S Rp) as (e21 & s1 & E1 & S1 & T1).
      destruct (sim_piece copy ms inp p m0 e2 ge0 s h0 g0 e21 s1 gex hx gx G0 R0 IO0 Hb0 E1 EP) as (m1 & G1 & R1).
      exists m1, e21, s1. auto. }
    destruct o as [p|p|got count|k|n]; cbn [simple] in Ho; try contradiction; cbn [ge_step] in ES.
    + destruct (ge_piece false ms (SExt p) ge h g) as [[[a b] c]|] eqn:EP; [|discriminate]. inversion ES; subst a b c ret; clear ES.
      destruct (Hpiece false p ge h g (SExt p) ge1 h1 g1 m G R (InpOK_ext h g p 0) eq_refl EP) as (m1 & e21 & s1 & G1 & R1 & S1 & T1).
      pose proof (encode_piece_rep mi ms ltac:(lia) ltac:(lia) est x p Rp) as Rp1.
      destruct (IH m1 e21 ge1 s1 h1 g1 _ _ ge' h' g' out2 Hr G1 R1 S1 Rp1 ER2) as (m' & e2' & s' & est' & G' & R' & S' & Rp' & T').
      exists m', e2', s', est'. split; [exact G'|]. split; [exact R'|]. split; [exact S'|]. split; [|cbn [app]; congruence].
      cbn [gpieces flat_map concat app]. fold (gpieces r). rewrite app_assoc. exact Rp'.
    + destruct (ge_piece true ms (SExt p) ge h g) as [[[a b] c]|] eqn:EP; [|discriminate]. inversion ES; subst a b c ret; clear ES.
      destruct (Hpiece true p ge h g (SExt p) ge1 h1 g1 m G R (InpOK_ext h g p 0) eq_refl EP) as (m1 & e21 & s1 & G1 & R1 & S1 & T1).
      pose proof (encode_piece_rep mi ms ltac:(lia) ltac:(lia) est x p Rp) as Rp1.
      destruct (IH m1 e21 ge1 s1 h1 g1 _ _ ge' h' g' out2 Hr G1 R1 S1 Rp1 ER2) as (m' & e2' & s' & est' & G' & R' & S' & Rp' & T').
      exists m', e2', s', est'. split; [exact G'|]. split; [exact R'|]. split; [exact S'|]. split; [|cbn [app]; congruence].
      cbn [gpieces flat_map concat app]. fold (gpieces r). rewrite app_assoc. exact Rp'.
    + unfold ge_read in ES. destruct (as_read_n h (gcache_ g) got count) as [[[hr kr] a]|] eqn:EA; [|discriminate].
      destruct (ge_anchored ms a ge hr (set_cache kr g)) as [[[ga ha] gga]|] eqn:EAn; [|discriminate].
      inversion ES; subst ga ha gga ret; clear ES.
      destruct (sim_read_n m s h g got count hr kr a G EA) as (Gr & Hpos).
      pose proof (encode_piece_rep mi ms ltac:(lia) ltac:(lia) est x got Rp) as Rp1.
      unfold ge_anchored in EAn. destruct (as_len a =? 0)%N eqn:E0.
      * (* nothing was read: the call returns at once *)
        inversion EAn; subst ge1 h1 g1; clear EAn.
        assert (Hgot : got = []).
        { unfold as_read_n in EA. destruct (arena_read_n h (gcache_ g) got count) as [[[[h2 k2] sl] an]|] eqn:EAr; [|discriminate].
          inversion EA; subst hr kr a. unfold as_len in E0. cbn [as_sl] in E0. apply N.eqb_eq in E0.
          destruct (GS_good _ _ _ _ G) as (I & B).
          cbn [simple] in Ho.
          destruct (N.eq_dec count 0) as [->|Hnz]; [apply nlen_zero; lia|].
          assert (Hcp : (0 < count)%N) by lia.
          destruct (arena_read_n_spec _ _ _ _ _ _ _ _ (gi_cache h g I) (gi_heap h g I) Hcp Ho EAr)
            as (kk & _ & _ & _ & _ & _ & _ & Esl & _). subst sl. cbn [sl_len] in E0. now apply nlen_zero. }
        subst got. rewrite app_nil_r in Rp1.
        assert (Rp0 : Rep mi ms est (x ++ [])) by (rewrite app_nil_r; exact Rp).
        destruct (IH m e2 ge s hr (set_cache kr g) est (x ++ []) ge' h' g' out2 Hr Gr R S Rp0 ER2) as (m' & e2' & s' & est' & G' & R' & S' & Rp' & T').
        exists m', e2', s', est'. split; [exact G'|]. split; [exact R'|]. split; [exact S'|]. split; [|cbn [app]; exact T'].
        cbn [gpieces flat_map concat app]. fold (gpieces r). rewrite app_nil_r in Rp'. exact Rp'.
      * destruct (ge_piece false ms (as_sl a) ge hr (set_cache kr g)) as [[[gp hp] ggp]|] eqn:EP; [|discriminate].
        inversion EAn; subst ge1 h1 g1; clear EAn.
        destruct (Hpos eq_refl) as (IOr & Hbr).
        destruct (Hpiece false got ge hr (set_cache kr g) (as_sl a) gp hp ggp m Gr R IOr Hbr EP) as (m1 & e21 & s1 & G1 & R1 & S1 & T1).
        pose proof (GS_push_anchor m1 s1 hp ggp (as_anchor a) G1) as G1'.
        destruct (IH m1 e21 gp s1 hp _ _ _ ge' h' g' out2 Hr G1' R1 S1 Rp1 ER2) as (m' & e2' & s' & est' & G' & R' & S' & Rp' & T').
        exists m', e2', s', est'. split; [exact G'|]. split; [exact R'|]. split; [exact S'|]. split; [|cbn [app]; congruence].
        cbn [gpieces flat_map concat app]. fold (gpieces r). rewrite app_assoc. exact Rp'.
    + destruct (read h n g) as [[g1' bs]|] eqn:ERd; [|discriminate]. inversion ES; subst ge1 h1 g1' ret; clear ES.
      destruct (geo_sink_read m s h g n g1 bs G ERd) as (ks & G1 & T1).
      assert (R1 : ER m e2 ge (fold_left s_drain ks s)).
      { destruct R as (A & B & C & D & E). unfold ER. rewrite fold_drain_nid. auto. }
      destruct (IH m e2 ge _ h g1 est x ge' h' g' out2 Hr G1 R1 (fold_drain_sim e2 est ks s S) Rp ER2)
        as (m' & e2' & s' & est' & G' & R' & S' & Rp' & T').
      exists m', e2', s', est'. split; [exact G'|]. split; [exact R'|]. split; [exact S'|]. split; [|rewrite T', T1, app_assoc; reflexivity].
      cbn [gpieces flat_map concat app]. fold (gpieces r). exact Rp'.
Qed.

Lemma abs_bytes : forall (l : list Pipe.mbyte) pre, map Pipe.abs_cell l = map Pipe.Byte pre -> map fst l = pre.
Proof.
  induction l as [|[b o] l IH]; intros [|x pre] H; try discriminate; [reflexivity|].
  cbn [map] in H. inversion H as [[H1 H2]]. unfold Pipe.abs_cell in H1. cbn [fst snd] in H1.
  destruct o; [discriminate|]. inversion H1; subst. cbn [map fst]. f_equal. now apply IH.
Qed.

Lemma terminate_taken e s s' : terminate_s e s = Ok s' -> taken s' = taken s.
Proof.
  unfold terminate_s, enc_write_partial_stuff, encode_header, s_backfill.
  destruct (mid e).
  - destruct (maxc e <? cur e + 1); [discriminate|]. cbn [cur maxc bid EncSink.blen].
    repeat match goal with |- context[if ?c then _ else _] => destruct c; try discriminate end.
    intros H; inversion H; reflexivity.
  - repeat match goal with |- context[if ?c then _ else _] => destruct c; try discriminate end.
    intros H; inversion H; reflexivity.
Qed.

(* C01/C02/C07 at memory level: for every history of encode (borrowed) / encode_copy calls of any sizes interleaved with
   consumer Reads, if the memory-level encoder and its iovec return (no arena overflow), then what the Reads returned
   followed by the bytes left in the iovec after finish is the reference encoding of the concatenated input, and no
   placeholder is left pending *)
Theorem genc_output_is_reference ops e h g ge' h' g' out hf gf :
  Forall simple ops ->
  ge_new [] empty_iov mi = Some (e, h, g) ->
  ge_run ms e h g ops = Some (ge', h', g', out) ->
  ge_terminate ge' h' g' = Some (hf, gf) ->
  out ++ all_bytes hf gf = encode_ref mi ms (concat (gpieces ops)).
Proof.
  intros Hs E0 E1 E2.
  pose proof (sim_new (fun x => x) s_empty [] empty_iov mi e h g (GS_empty _) E0) as N0.
  pose proof (init_sim mi ms) as S0. destruct (enc_new s_empty mi) as [e0 s0] eqn:EN.
  destruct N0 as (m0 & G0 & R0).
  assert (T0 : taken s0 = []) by (unfold enc_new in EN; cbn in EN; inversion EN; reflexivity).
  destruct (sim_run ops m0 e0 e s0 h g (init mi) [] ge' h' g' out Hs G0 R0 S0 (rep_init mi ms ltac:(lia)) E1)
    as (m' & e2' & s' & est' & G' & R' & S' & Rp' & T').
  cbn [app] in Rp'. rewrite T0 in T'. cbn [app] in T'.
  destruct (terminate_sim mi ms Hmi Hms e2' s' est' _ S' Rp') as (sf & ET & pre & F & C).
  pose proof (sim_terminate m' e2' ge' s' h' g' sf hf gf G' R' ET E2) as (GI & p & SRf & Rf & PI).
  rewrite (R_all_bytes hf gf p Rf).
  pose proof (sr_cells _ _ _ SRf) as HC. rewrite C, map_ren_bytes in HC. unfold Pipe.abs in HC. symmetry in HC.
  rewrite (abs_bytes _ _ HC).
  rewrite (terminate_taken _ _ _ ET), T' in F. transitivity (frame (terminate est')); [symmetry; exact F|].
  unfold encode_ref. now rewrite (rep_terminate mi ms est' _ Rp').
Qed.

(* C09 at memory level: at every point of every history, what the consumer's Reads returned so far followed by the bytes of
   the slices it may look at now (stable_prefix) is a prefix of the final encoding, whatever input is still to come *)
Theorem genc_prefix ops e h g ge' h' g' out st :
  Forall simple ops ->
  ge_new [] empty_iov mi = Some (e, h, g) ->
  ge_run ms e h g ops = Some (ge', h', g', out) ->
  stable_slices g' = Some st ->
  forall z, exists t, encode_ref mi ms (concat (gpieces ops) ++ z) = (out ++ concat (map (sl_bytes h') st)) ++ t.
Proof.
  intros Hs E0 E1 ES z.
  pose proof (sim_new (fun x => x) s_empty [] empty_iov mi e h g (GS_empty _) E0) as N0.
  pose proof (init_sim mi ms) as S0. destruct (enc_new s_empty mi) as [e0 s0] eqn:EN.
  destruct N0 as (m0 & G0 & R0).
  assert (T0 : taken s0 = []) by (unfold enc_new in EN; cbn in EN; inversion EN; reflexivity).
  destruct (sim_run ops m0 e0 e s0 h g (init mi) [] ge' h' g' out Hs G0 R0 S0 (rep_init mi ms ltac:(lia)) E1)
    as (m' & e2' & s' & est' & G' & R' & (SW & _) & Rp' & T').
  cbn [app] in Rp'. rewrite T0 in T'. cbn [app] in T'.
  destruct (stable_sim mi ms Hmi Hms e2' s' est' _ SW) as (pre & F & St & _).
  destruct G' as (I & p & SRf & Rf & PI).
  pose proof (R_stable_bytes h' g' p st Rf ES) as HB.
  destruct (PipeProofs4.stable_before_first_hole p PI) as (t1 & Ht1).
  pose proof (sr_cells _ _ _ SRf) as HC. rewrite <- HC, stable_ren, St in Ht1.
  destruct (frame_app_prefix (closed est') (stuffN (limit est') ms (open_of est' ++ z))) as (t2 & Ht2).
  exists (t1 ++ t2). unfold encode_ref. rewrite (r_online mi ms est' _ Rp' z), Ht2, F, T', Ht1, HB, <- !app_assoc. reflexivity.
Qed.
End Hist.
