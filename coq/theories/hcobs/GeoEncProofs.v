(* The memory-level encoder (hcobs/GeoEnc.v) refines the sink-level encoder (hcobs/EncSink.v): whenever both return, the
   iovec state is related to the sink (GeoSink.GS: the iovec's cells are the sink's up to renaming of hole ids) and the
   encoder states agree.  Hence every sink-level theorem (C01 C02 C07 C09: the output is the reference encoding, prefix
   stability, lag bound) holds of the bytes the geometry-faithful iovec hands out. *)
From Coq Require Import List NArith Bool Arith Lia.
From WP Require Import hcobs.Stuffing hcobs.EncChunks hcobs.EncChunksProofs hcobs.Dec hcobs.EncSink hcobs.SinkSim.
From WP Require Import iovec.Geo iovec.GeoMem iovec.GeoProofs iovec.GeoRefine iovec.GeoHistory iovec.GeoSink hcobs.GeoEnc.
Import ListNotations.
Open Scope nat_scope.

Definition ER (m : nat -> nat) (e : enc) (ge : genc) (s : sink) : Prop :=
  maxc e = gmaxc ge /\ cur e = gcur ge /\ mid e = gmid ge /\ bid e < nid s /\
  exists b, gbref ge = Some b /\ N.to_nat (Geo.blen b) = EncSink.blen e /\ N.to_nat (bend b) = m (bid e).

Lemma ends_fe_fast_eq l : ends_fe_fast l = ends_fe l.
Proof.
  unfold ends_fe_fast, ends_fe. destruct l as [|a t]; [reflexivity|].
  assert (Hne : a :: t <> []) by discriminate. destruct (exists_last Hne) as (l' & x & ->).
  rewrite last_last, rev_app_distr. reflexivity.
Qed.

Lemma sub_ext p off n : sub (SExt p) off n = SExt (firstn n (skipn off p)).
Proof. unfold sub, sl_skip, sl_keep, nfirstn, nskipn. now rewrite !Nat2N.id. Qed.

(* ---- register_patch hands out a handle of the pattern's length ---- *)
Lemma register_blen h pat g h' g' b : register_patch h pat g = Some (h', g', Some b) -> Geo.blen b = nlen pat.
Proof.
  unfold register_patch. destruct pat as [|x t]; [discriminate|].
  destruct (push_copy h (x :: t) g) as [[h1 g1]|]; [|discriminate].
  destruct (back (gslices g1)) as [l|]; [|discriminate].
  destruct (glogical g1 =? 0)%N; [discriminate|].
  destruct (back (gbackrefs g1)) as [q|].
  - match goal with |- context[if ?c then _ else _] => destruct c end; [discriminate|]. intros E; inversion E; reflexivity.
  - intros E; inversion E; reflexivity.
Qed.

Lemma sim_register m s h g pat h' g' b : GS m s h g -> pat <> [] -> register_patch h pat g = Some (h', g', b) ->
  exists m' b0, b = Some b0 /\ GS m' (fst (s_register s (length pat))) h' g' /\
                N.to_nat (bend b0) = m' (nid s) /\ N.to_nat (Geo.blen b0) = length pat.
Proof.
  intros G Hne E. destruct (geo_sink_register m s h g pat h' g' b G Hne E) as (m' & G' & Hb & _).
  destruct b as [b0|]; [|discriminate]. cbn [option_map] in Hb. inversion Hb as [Hb'].
  exists m', b0. split; [reflexivity|]. split; [exact G'|]. split; [exact Hb'|].
  rewrite (register_blen _ _ _ _ _ _ E). unfold nlen. apply Nat2N.id.
Qed.

Lemma sim_new_gen m s h g n pat ge h' g' (mx : nat) :
  GS m s h g -> pat <> [] -> length pat = n ->
  match register_patch h pat g with
  | Some (h', g', b) => Some ({| gmaxc := mx; gcur := 0; gmid := false; gbref := b |}, h', g')
  | None => None
  end = Some (ge, h', g') ->
  let '(s', id) := s_register s n in
  exists m', GS m' s' h' g' /\ ER m' {| maxc := mx; cur := 0; mid := false; bid := id; EncSink.blen := n |} ge s'.
Proof.
  intros G Hne Hn E. destruct (register_patch h pat g) as [[[h1 g1] b]|] eqn:ER0; [|discriminate].
  inversion E; subst ge h1 g1; clear E.
  destruct (sim_register _ _ _ _ _ _ _ _ G Hne ER0) as (m' & b0 & -> & G' & Hb & Hl).
  rewrite Hn in *. unfold s_register in *. cbn [fst] in G'.
  exists m'. split; [exact G'|]. unfold ER. cbn [maxc cur mid bid EncSink.blen gmaxc gcur gmid gbref nid].
  repeat split; try lia. exists b0. auto.
Qed.

Lemma sim_new m s h g mi ge h' g' : GS m s h g -> ge_new h g mi = Some (ge, h', g') ->
  let '(e, s') := enc_new s mi in exists m', GS m' s' h' g' /\ ER m' e ge s'.
Proof.
  intros G E. unfold ge_new in E. unfold enc_new.
  pose proof (sim_new_gen m s h g 1 [0%N] ge h' g' mi G ltac:(discriminate) eq_refl E) as H.
  destruct (s_register s 1) as [s' id]. exact H.
Qed.
Lemma sim_new_subsequent m s h g ms ge h' g' : GS m s h g -> ge_new_subsequent h g ms = Some (ge, h', g') ->
  let '(e, s') := enc_new_subsequent s ms in exists m', GS m' s' h' g' /\ ER m' e ge s'.
Proof.
  intros G E. unfold ge_new_subsequent in E. unfold enc_new_subsequent.
  pose proof (sim_new_gen m s h g 2 [0%N; 0%N] ge h' g' ms G ltac:(discriminate) eq_refl E) as H.
  destruct (s_register s 2) as [s' id]. exact H.
Qed.

(* ---- encode_header ---- *)
Lemma sim_header m e ge s h g n s' h' g' : GS m s h g -> ER m e ge s ->
  encode_header n s e = Ok s' -> ge_encode_header n h g (gbref ge) = Some (h', g') -> GS m s' h' g'.
Proof.
  intros G (_ & _ & _ & Hid & b & Eb & Hl & Hm) E1 E2. unfold encode_header in E1. unfold ge_encode_header in E2.
  rewrite Eb in E2. cbn [bref_len] in E2. rewrite Hl in E2.
  destruct (RADIX * RADIX <=? n); [discriminate|].
  destruct (negb ((1 <=? EncSink.blen e) && (EncSink.blen e <=? 2))); [discriminate|].
  destruct (negb (N.eqb (nth (EncSink.blen e) [N.of_nat (n mod RADIX); N.of_nat (n / RADIX); 0%N] 0%N) 0%N)); [discriminate|].
  eapply geo_sink_backfill; eauto.
Qed.

(* ---- write / copy / the held-back FE ---- *)
Lemma ER_push m e ge s bs c : ER m e ge s -> ER m {| maxc := maxc e; cur := c; mid := mid e; bid := bid e; EncSink.blen := EncSink.blen e |}
                                                  (with_cur ge c) (s_push s bs).
Proof. intros (A & B & C & D & E). unfold ER. cbn. repeat split; auto. Qed.

Lemma sim_write m e ge s h g copy p off n e' s' ge' h' g' : GS m s h g -> ER m e ge s ->
  enc_write e s (firstn n (skipn off p)) = Ok (e', s') -> length (firstn n (skipn off p)) = n ->
  ge_write copy (SExt p) p ge h g off n = Some (ge', h', g') -> GS m s' h' g' /\ ER m e' ge' s'.
Proof.
  intros G R E1 Hlen E2. unfold enc_write in E1. unfold ge_write in E2.
  destruct n as [|n'].
  - cbn [firstn] in E1. inversion E1; inversion E2; subst. auto.
  - set (n := S n') in *. destruct (firstn n (skipn off p)) as [|x t] eqn:EF; [cbn in Hlen; lia|]. rewrite <- EF in *.
    rewrite Hlen in E1.
    assert (EP : exists h1 g1, (if copy then push_copy h (firstn n (skipn off p)) g else push h (sub (SExt p) off n) g) = Some (h1, g1)).
    { destruct (if copy then _ else _) as [[h1 g1]|]; [eauto|discriminate]. }
    destruct EP as (h1 & g1 & EP). rewrite EP in E2.
    assert (G1 : GS m (s_push s (firstn n (skipn off p))) h1 g1).
    { destruct copy; [eapply geo_sink_push_copy; eauto|]. rewrite sub_ext in EP. eapply geo_sink_push; eauto. }
    destruct R as (A & B & C & D) eqn:ER0. rewrite <- A, <- B in E2.
    destruct (maxc e <? cur e + n); [discriminate|]. inversion E1; inversion E2; subst. split; [exact G1|].
    rewrite B. apply ER_push. unfold ER. auto.
Qed.

Lemma sim_partial m e ge s h g e' s' ge' h' g' : GS m s h g -> ER m e ge s ->
  enc_write_partial_stuff e s = Ok (e', s') -> ge_write_partial_stuff ge h g = Some (ge', h', g') ->
  GS m s' h' g' /\ ER m e' ge' s'.
Proof.
  intros G R E1 E2. unfold enc_write_partial_stuff in E1. unfold ge_write_partial_stuff in E2.
  destruct (push_copy h [FE] g) as [[h1 g1]|] eqn:EP; [|discriminate].
  pose proof (geo_sink_push_copy m s h g [FE] h1 g1 G EP) as G1.
  destruct R as (A & B & C & D). rewrite <- A, <- B in E2.
  destruct (maxc e <? cur e + 1); [discriminate|]. inversion E1; inversion E2; subst. split; [exact G1|].
  rewrite B. apply ER_push. unfold ER. auto.
Qed.

(* ---- closing a chunk: backfill the header, register the next one ---- *)
Lemma sim_close m e ge s h g ms s2 h2 g2 ge3 h3 g3 : GS m s h g -> ER m e ge s ->
  encode_header (cur e) s e = Ok s2 -> ge_encode_header (gcur ge) h g (gbref ge) = Some (h2, g2) ->
  ge_new_subsequent h2 g2 ms = Some (ge3, h3, g3) ->
  let '(e3, s3) := enc_new_subsequent s2 ms in exists m', GS m' s3 h3 g3 /\ ER m' e3 ge3 s3.
Proof.
  intros G R E1 E2 E3. assert (Hc : cur e = gcur ge) by (destruct R as (_ & B & _); exact B). rewrite <- Hc in E2.
  pose proof (sim_header _ _ _ _ _ _ _ _ _ _ G R E1 E2) as G2.
  exact (sim_new_subsequent m s2 h2 g2 ms ge3 h3 g3 G2 E3).
Qed.

(* ---- consume_once ---- *)
Lemma sim_consume_once m e ge s h g copy ms p off e' s' c ge' h' g' c' :
  GS m s h g -> ER m e ge s ->
  consume_once_s ms e s (skipn off p) = Ok (e', s', c) ->
  ge_consume_once copy ms (SExt p) p ge h g off = Some (ge', h', g', c') ->
  c = c' /\ exists m', GS m' s' h' g' /\ ER m' e' ge' s'.
Proof.
  intros G R E1 E2. unfold consume_once_s in E1. unfold ge_consume_once in E2.
  destruct (skipn off p) as [|b0 y0] eqn:Ey; [discriminate|]. rewrite <- Ey in *.
  assert (R0 := R). destruct R0 as (HM & HC & HD & _). rewrite <- HM, <- HC, <- HD in E2.
  destruct (negb (cur e + (if mid e then 1 else 0) <? maxc e)); [discriminate|].
  destruct (mid e && N.eqb b0 FD)%bool.
  { (* the held-back FE completes a stuff sequence *)
    destruct (encode_header (cur e) s e) as [s2|] eqn:EH; [|discriminate].
    rewrite HC in E2.
    destruct (ge_encode_header (gcur ge) h g (gbref ge)) as [[h2 g2]|] eqn:GH; [|discriminate].
    destruct (ge_new_subsequent h2 g2 ms) as [[[ge3 h3] g3]|] eqn:GN; [|discriminate].
    pose proof (sim_close m e ge s h g ms s2 h2 g2 ge3 h3 g3 G R EH GH GN) as H.
    destruct (enc_new_subsequent s2 ms) as [e3 s3]. inversion E1; inversion E2; subst. split; [reflexivity|exact H]. }
  destruct (negb (cur e <? maxc e)); [discriminate|].
  (* the held-back FE is written first *)
  assert (HW : exists e1 s1 ge1 h1 g1,
    (if mid e then match enc_write_partial_stuff e s with
                   | Panic => Panic
                   | Ok (e1, s1) => if negb (cur e1 <? maxc e1) then Panic else Ok (e1, s1) end
     else Ok (e, s)) = Ok (e1, s1) /\
    (if mid e then match ge_write_partial_stuff ge h g with
                   | None => None
                   | Some (e1, h1, g1) => if negb (gcur e1 <? gmaxc e1) then None else Some (e1, h1, g1) end
     else Some (ge, h, g)) = Some (ge1, h1, g1) /\ GS m s1 h1 g1 /\ ER m e1 ge1 s1).
  { destruct (mid e).
    - destruct (enc_write_partial_stuff e s) as [[e1 s1]|] eqn:EP; [|discriminate].
      destruct (ge_write_partial_stuff ge h g) as [[[ge1 h1] g1]|] eqn:GP; [|discriminate].
      destruct (sim_partial _ _ _ _ _ _ _ _ _ _ _ G R EP GP) as (G1 & R1).
      assert (R10 := R1). destruct R10 as (A1 & B1 & _). rewrite <- A1, <- B1.
      destruct (negb (cur e1 <? maxc e1)); [discriminate|]. exists e1, s1, ge1, h1, g1. auto.
    - exists e, s, ge, h, g. auto. }
  destruct HW as (e1 & s1 & ge1 & h1 & g1 & W1 & W2 & G1 & R1). rewrite W1 in E1. rewrite W2 in E2.
  assert (R10 := R1). destruct R10 as (HM1 & HC1 & HD1 & _). rewrite <- HM1, <- HC1 in E2.
  set (remaining := maxc e1 - cur e1) in *. set (window := firstn remaining (skipn off p)) in *.
  destruct window as [|wb wt] eqn:EW; [discriminate|]. rewrite <- EW in *.
  assert (Hclose : forall (e2 : enc) (s2 : sink) (ge2 : genc) (h2 : heap) (g2 : giov) k,
    GS m s2 h2 g2 -> ER m e2 ge2 s2 ->
    match encode_header (cur e2) s2 e2 with
    | Panic => Panic
    | Ok s3 => let '(e3, s4) := enc_new_subsequent s3 ms in Ok (e3, s4, k)
    end = Ok (e', s', c) ->
    match ge_encode_header (gcur ge2) h2 g2 (gbref ge2) with
    | None => None
    | Some (h3, g3) => match ge_new_subsequent h3 g3 ms with
                       | None => None
                       | Some (e4, h4, g4) => Some (e4, h4, g4, k)
                       end
    end = Some (ge', h', g', c') ->
    c = c' /\ exists m', GS m' s' h' g' /\ ER m' e' ge' s').
  { intros e2 s2 ge2 h2 g2 k G2 R2 X1 X2.
    destruct (encode_header (cur e2) s2 e2) as [s3|] eqn:EH; [|discriminate].
    destruct (ge_encode_header (gcur ge2) h2 g2 (gbref ge2)) as [[h3 g3]|] eqn:GH; [|discriminate].
    destruct (ge_new_subsequent h3 g3 ms) as [[[ge4 h4] g4]|] eqn:GN; [|discriminate].
    pose proof (sim_close m e2 ge2 s2 h2 g2 ms s3 h3 g3 ge4 h4 g4 G2 R2 EH GH GN) as H.
    destruct (enc_new_subsequent s3 ms) as [e3 s4]. inversion X1; inversion X2; subst. split; [reflexivity|exact H]. }
  assert (LWin : length window <= remaining) by (unfold window; rewrite firstn_length; lia).
  assert (LWy : length window <= length (skipn off p)) by (unfold window; rewrite firstn_length; lia).
  destruct (find_stuff window) as [idx|] eqn:F.
  - apply find_some_len in F as (F1 & F2).
    destruct (enc_write e1 s1 (firstn idx (skipn off p))) as [[e2 s2]|] eqn:EWr; [|discriminate].
    destruct (ge_write copy (SExt p) p ge1 h1 g1 off idx) as [[[ge2 h2] g2]|] eqn:GWr; [|discriminate].
    destruct (sim_write m e1 ge1 s1 h1 g1 copy p off idx e2 s2 ge2 h2 g2 G1 R1 EWr ltac:(rewrite firstn_length; lia) GWr) as (G2 & R2).
    exact (Hclose e2 s2 ge2 h2 g2 (idx + 2) G2 R2 E1 E2).
  - destruct (length window =? remaining) eqn:EL.
    + apply Nat.eqb_eq in EL.
      destruct (enc_write e1 s1 window) as [[e2 s2]|] eqn:EWr; [|discriminate].
      destruct (ge_write copy (SExt p) p ge1 h1 g1 off remaining) as [[[ge2 h2] g2]|] eqn:GWr; [|discriminate].
      destruct (sim_write m e1 ge1 s1 h1 g1 copy p off remaining e2 s2 ge2 h2 g2 G1 R1 EWr ltac:(fold window; lia) GWr) as (G2 & R2).
      exact (Hclose e2 s2 ge2 h2 g2 remaining G2 R2 E1 E2).
    + rewrite ends_fe_fast_eq in E2.
      set (m' := ends_fe window) in *. set (tc := if m' then length window - 1 else length window) in *.
      assert (Rm : ER m (set_mid e1 m') (gset_mid ge1 m') s1).
      { destruct R1 as (A & B & C & D). unfold ER. cbn. auto. }
      destruct (enc_write (set_mid e1 m') s1 (firstn tc (skipn off p))) as [[e2 s2]|] eqn:EWr; [|discriminate].
      destruct (ge_write copy (SExt p) p (gset_mid ge1 m') h1 g1 off tc) as [[[ge2 h2] g2]|] eqn:GWr; [|discriminate].
      assert (Htc : length (firstn tc (skipn off p)) = tc).
      { rewrite firstn_length. unfold tc. destruct m'; lia. }
      destruct (sim_write m _ _ s1 h1 g1 copy p off tc e2 s2 ge2 h2 g2 G1 Rm EWr Htc GWr) as (G2 & R2).
      assert (R20 := R2). destruct R20 as (HM2 & HC2 & HD2 & _). rewrite <- HM2, <- HC2, <- HD2 in E2.
      destruct (negb (cur e2 + (if mid e2 then 1 else 0) <? maxc e2)); [discriminate|].
      inversion E1; inversion E2; subst. split; [reflexivity|]. exists m. auto.
Qed.

(* ---- the encode loop, one piece, terminate ---- *)
Lemma sim_loop copy ms p : forall fuel m e ge s h g off e' s' ge' h' g',
  GS m s h g -> ER m e ge s ->
  encode_loop_s fuel ms e s (skipn off p) = Ok (e', s') ->
  ge_loop fuel copy ms (SExt p) p ge h g off = Some (ge', h', g') ->
  exists m', GS m' s' h' g' /\ ER m' e' ge' s'.
Proof.
  induction fuel as [|fuel IH]; intros m e ge s h g off e' s' ge' h' g' G R E1 E2; cbn [encode_loop_s ge_loop] in *.
  - inversion E1; inversion E2; subst. eauto.
  - destruct (skipn off p) as [|b0 y0] eqn:Ey; [inversion E1; inversion E2; subst; eauto|]. rewrite <- Ey in *.
    destruct (consume_once_s ms e s (skipn off p)) as [[[e1 s1] c]|] eqn:C1; [|discriminate].
    destruct (ge_consume_once copy ms (SExt p) p ge h g off) as [[[[ge1 h1] g1] c']|] eqn:C2; [|discriminate].
    destruct (sim_consume_once m e ge s h g copy ms p off e1 s1 c ge1 h1 g1 c' G R C1 C2) as (<- & m1 & G1 & R1).
    rewrite skipn_length in E1.
    destruct (negb (c <=? length p - off)); [discriminate|].
    assert (Hm : mid e = gmid ge) by (destruct R as (_ & _ & X & _); exact X).
    assert (Hm1 : mid e1 = gmid ge1) by (destruct R1 as (_ & _ & X & _); exact X).
    rewrite <- Hm, <- Hm1 in E2.
    destruct (negb ((0 <? c) || negb (mid e1) && mid e)); [discriminate|].
    rewrite GeoMem.skipn_skipn' in E1.
    exact (IH m1 e1 ge1 s1 h1 g1 (off + c) e' s' ge' h' g' G1 R1 E1 E2).
Qed.

Lemma sim_piece copy ms p m e ge s h g e' s' ge' h' g' :
  GS m s h g -> ER m e ge s ->
  encode_piece_s ms e s p = Ok (e', s') ->
  ge_piece copy ms (SExt p) ge h g = Some (ge', h', g') ->
  exists m', GS m' s' h' g' /\ ER m' e' ge' s'.
Proof.
  intros G R E1 E2. unfold encode_piece_s in E1. unfold ge_piece in E2. cbn [sl_bytes] in E2.
  exact (sim_loop copy ms p _ m e ge s h g 0 e' s' ge' h' g' G R E1 E2).
Qed.

Lemma sim_terminate m e ge s h g s' h' g' : GS m s h g -> ER m e ge s ->
  terminate_s e s = Ok s' -> ge_terminate ge h g = Some (h', g') -> GS m s' h' g'.
Proof.
  intros G R E1 E2. unfold terminate_s in E1. unfold ge_terminate in E2.
  assert (Hm : mid e = gmid ge) by (destruct R as (_ & _ & X & _); exact X). rewrite <- Hm in E2.
  assert (HW : exists e1 s1 ge1 h1 g1,
    (if mid e then enc_write_partial_stuff e s else Ok (e, s)) = Ok (e1, s1) /\
    (if mid e then ge_write_partial_stuff ge h g else Some (ge, h, g)) = Some (ge1, h1, g1) /\ GS m s1 h1 g1 /\ ER m e1 ge1 s1).
  { destruct (mid e).
    - destruct (enc_write_partial_stuff e s) as [[e1 s1]|] eqn:EP; [|discriminate].
      destruct (ge_write_partial_stuff ge h g) as [[[ge1 h1] g1]|] eqn:GP; [|discriminate].
      destruct (sim_partial _ _ _ _ _ _ _ _ _ _ _ G R EP GP) as (G1 & R1). exists e1, s1, ge1, h1, g1. auto.
    - exists e, s, ge, h, g. auto. }
  destruct HW as (e1 & s1 & ge1 & h1 & g1 & W1 & W2 & G1 & R1). rewrite W1 in E1. rewrite W2 in E2.
  assert (R10 := R1). destruct R10 as (HM1 & HC1 & _). rewrite <- HM1, <- HC1 in E2.
  destruct (negb (cur e1 <? maxc e1)); [discriminate|].
  rewrite HC1 in E2. rewrite HC1 in E1 at 1.
  assert (E1' : encode_header (cur e1) s1 e1 = Ok s') by (rewrite HC1; exact E1).
  rewrite <- HC1 in E2. exact (sim_header m e1 ge1 s1 h1 g1 (cur e1) s' h' g' G1 R1 E1' E2).
Qed.

(* ---- whole histories ---- *)
From WP Require Import hcobs.EncSinkProofs.
From WP Require iovec.Pipe iovec.PipeProofs.

Definition simple (o : geop) : Prop := match o with GEBorrow _ | GECopy _ | GERd _ => True | _ => False end.
Definition gpieces (ops : list geop) : list (list byte) :=
  flat_map (fun o => match o with GEBorrow p | GECopy p => [p] | GERead got _ => [got] | _ => [] end) ops.

(* run a history; the bytes the consumer's Reads returned, in order *)
Fixpoint ge_run (ms : nat) (e : genc) (h : heap) (g : giov) (ops : list geop) : option (genc * heap * giov * list N) :=
  match ops with
  | [] => Some (e, h, g, [])
  | o :: r =>
    match ge_step ms e h g o with
    | None => None
    | Some (e1, h1, g1, ret) =>
      match ge_run ms e1 h1 g1 r with
      | None => None
      | Some (e2, h2, g2, out) => Some (e2, h2, g2, (match o with GERd _ => ret | _ => [] end) ++ out)
      end
    end
  end.

Section Hist.
Variables mi ms : nat.
Hypothesis Hmi : 0 < mi <= 252.
Hypothesis Hms : 0 < ms < RADIX * RADIX.

Lemma fold_drain_sim e2 e : forall ks s, Sim mi ms e2 s e -> Sim mi ms e2 (fold_left s_drain ks s) e.
Proof. induction ks as [|k ks IH]; intros s S; cbn [fold_left]; [exact S|]. apply IH. now apply drain_sim. Qed.
Lemma fold_drain_nid : forall ks s, nid (fold_left s_drain ks s) = nid s.
Proof. induction ks as [|k ks IH]; intros s; cbn [fold_left]; [reflexivity|]. rewrite IH. reflexivity. Qed.

Lemma sim_run : forall ops m e2 ge s h g est x ge' h' g' out,
  Forall simple ops -> GS m s h g -> ER m e2 ge s -> Sim mi ms e2 s est -> Rep mi ms est x ->
  ge_run ms ge h g ops = Some (ge', h', g', out) ->
  exists m' e2' s' est', GS m' s' h' g' /\ ER m' e2' ge' s' /\ Sim mi ms e2' s' est' /\
                         Rep mi ms est' (x ++ concat (gpieces ops)) /\ taken s' = taken s ++ out.
Proof.
  induction ops as [|o r IH]; intros m e2 ge s h g est x ge' h' g' out Hs G R S Rp E; cbn [ge_run] in E.
  - inversion E; subst. exists m, e2, s, est. cbn [gpieces flat_map concat]. rewrite !app_nil_r. auto.
  - inversion Hs as [|? ? Ho Hr]; subst.
    destruct (ge_step ms ge h g o) as [[[[ge1 h1] g1] ret]|] eqn:ES; [|discriminate].
    destruct (ge_run ms ge1 h1 g1 r) as [[[[ge2 h2] g2] out2]|] eqn:ER2; [|discriminate].
    inversion E; subst ge2 h2 g2 out; clear E.
    assert (Hpiece : forall copy p, ge_piece copy ms (SExt p) ge h g = Some (ge1, h1, g1) ->
      exists m1 e21 s1, GS m1 s1 h1 g1 /\ ER m1 e21 ge1 s1 /\ Sim mi ms e21 s1 (encode_piece ms est p) /\ taken s1 = taken s).
    { intros copy p EP. destruct (encode_piece_sim mi ms Hmi Hms e2 s est x p S Rp) as (e21 & s1 & E1 & S1 & T1).
      destruct (sim_piece copy ms p m e2 ge s h g e21 s1 ge1 h1 g1 G R E1 EP) as (m1 & G1 & R1).
      exists m1, e21, s1. auto. }
    destruct o as [p|p|got count|k|n]; cbn [simple] in Ho; try contradiction; cbn [ge_step] in ES.
    + destruct (ge_piece false ms (SExt p) ge h g) as [[[a b] c]|] eqn:EP; [|discriminate]. inversion ES; subst a b c ret; clear ES.
      destruct (Hpiece false p EP) as (m1 & e21 & s1 & G1 & R1 & S1 & T1).
      pose proof (encode_piece_rep mi ms ltac:(lia) ltac:(lia) est x p Rp) as Rp1.
      destruct (IH m1 e21 ge1 s1 h1 g1 _ _ ge' h' g' out2 Hr G1 R1 S1 Rp1 ER2) as (m' & e2' & s' & est' & G' & R' & S' & Rp' & T').
      exists m', e2', s', est'. split; [exact G'|]. split; [exact R'|]. split; [exact S'|]. split; [|cbn [app]; congruence].
      cbn [gpieces flat_map concat app]. fold (gpieces r). rewrite app_assoc. exact Rp'.
    + destruct (ge_piece true ms (SExt p) ge h g) as [[[a b] c]|] eqn:EP; [|discriminate]. inversion ES; subst a b c ret; clear ES.
      destruct (Hpiece true p EP) as (m1 & e21 & s1 & G1 & R1 & S1 & T1).
      pose proof (encode_piece_rep mi ms ltac:(lia) ltac:(lia) est x p Rp) as Rp1.
      destruct (IH m1 e21 ge1 s1 h1 g1 _ _ ge' h' g' out2 Hr G1 R1 S1 Rp1 ER2) as (m' & e2' & s' & est' & G' & R' & S' & Rp' & T').
      exists m', e2', s', est'. split; [exact G'|]. split; [exact R'|]. split; [exact S'|]. split; [|cbn [app]; congruence].
      cbn [gpieces flat_map concat app]. fold (gpieces r). rewrite app_assoc. exact Rp'.
    + destruct (read h n g) as [[g1' bs]|] eqn:ERd; [|discriminate]. inversion ES; subst ge1 h1 g1' ret; clear ES.
      destruct (geo_sink_read m s h g n g1 bs G ERd) as (ks & G1 & T1).
      assert (R1 : ER m e2 ge (fold_left s_drain ks s)).
      { destruct R as (A & B & C & D & E). unfold ER. rewrite fold_drain_nid. auto. }
      destruct (IH m e2 ge _ h g1 est x ge' h' g' out2 Hr G1 R1 (fold_drain_sim e2 est ks s S) Rp ER2)
        as (m' & e2' & s' & est' & G' & R' & S' & Rp' & T').
      exists m', e2', s', est'. split; [exact G'|]. split; [exact R'|]. split; [exact S'|]. split; [|rewrite T', T1, app_assoc; reflexivity].
      cbn [gpieces flat_map concat app]. fold (gpieces r). exact Rp'.
Qed.

Lemma abs_bytes : forall (l : list Pipe.mbyte) pre, map Pipe.abs_cell l = map Pipe.Byte pre -> map fst l = pre.
Proof.
  induction l as [|[b o] l IH]; intros [|x pre] H; try discriminate; [reflexivity|].
  cbn [map] in H. inversion H as [[H1 H2]]. unfold Pipe.abs_cell in H1. cbn [fst snd] in H1.
  destruct o; [discriminate|]. inversion H1; subst. cbn [map fst]. f_equal. now apply IH.
Qed.

Lemma terminate_taken e s s' : terminate_s e s = Ok s' -> taken s' = taken s.
Proof.
  unfold terminate_s, enc_write_partial_stuff, encode_header, s_backfill.
  destruct (mid e).
  - destruct (maxc e <? cur e + 1); [discriminate|]. cbn [cur maxc bid EncSink.blen].
    repeat match goal with |- context[if ?c then _ else _] => destruct c; try discriminate end.
    intros H; inversion H; reflexivity.
  - repeat match goal with |- context[if ?c then _ else _] => destruct c; try discriminate end.
    intros H; inversion H; reflexivity.
Qed.

(* C01/C02/C07 at memory level: for every history of encode (borrowed) / encode_copy calls of any sizes interleaved with
   consumer Reads, if the memory-level encoder and its iovec return (no arena overflow), then what the Reads returned
   followed by the bytes left in the iovec after finish is the reference encoding of the concatenated input, and no
   placeholder is left pending *)
Theorem genc_output_is_reference ops e h g ge' h' g' out hf gf :
  Forall simple ops ->
  ge_new [] empty_iov mi = Some (e, h, g) ->
  ge_run ms e h g ops = Some (ge', h', g', out) ->
  ge_terminate ge' h' g' = Some (hf, gf) ->
  out ++ all_bytes hf gf = encode_ref mi ms (concat (gpieces ops)).
Proof.
  intros Hs E0 E1 E2.
  pose proof (sim_new (fun x => x) s_empty [] empty_iov mi e h g (GS_empty _) E0) as N0.
  pose proof (init_sim mi ms) as S0. destruct (enc_new s_empty mi) as [e0 s0] eqn:EN.
  destruct N0 as (m0 & G0 & R0).
  assert (T0 : taken s0 = []) by (unfold enc_new in EN; cbn in EN; inversion EN; reflexivity).
  destruct (sim_run ops m0 e0 e s0 h g (init mi) [] ge' h' g' out Hs G0 R0 S0 (rep_init mi ms ltac:(lia)) E1)
    as (m' & e2' & s' & est' & G' & R' & S' & Rp' & T').
  cbn [app] in Rp'. rewrite T0 in T'. cbn [app] in T'.
  destruct (terminate_sim mi ms Hmi Hms e2' s' est' _ S' Rp') as (sf & ET & pre & F & C).
  pose proof (sim_terminate m' e2' ge' s' h' g' sf hf gf G' R' ET E2) as (GI & p & SRf & Rf & PI).
  rewrite (R_all_bytes hf gf p Rf).
  pose proof (sr_cells _ _ _ SRf) as HC. rewrite C, map_ren_bytes in HC. unfold Pipe.abs in HC. symmetry in HC.
  rewrite (abs_bytes _ _ HC).
  rewrite (terminate_taken _ _ _ ET), T' in F. transitivity (frame (terminate est')); [symmetry; exact F|].
  unfold encode_ref. now rewrite (rep_terminate mi ms est' _ Rp').
Qed.
End Hist.
