(* The abstract sink of the encoder model (hcobs/EncSink.v: a list of cells, holes named 0, 1, 2, ...) is implemented by
   the value-level pipe of iovec/Pipe.v (and hence, through iovec/GeoHistory.v, by the geometry-faithful OwningIovec):
   register / push / backfill on the pipe produce, up to the renaming of hole ids, the cells the sink produces, and every
   Read on the pipe is a drain of the sink that returns the same bytes (the sink lets a consumer take any cells before the
   first hole; the pipe only hands out whole slices before the hole's slice, which is a particular drain schedule).
   This discharges, for the models, the assumption under which the HCOBS codec theorems are stated:
   "OwningIovec delivers appended bytes in order with backfilled placeholders". *)
From Coq Require Import List NArith Bool Arith Lia.
From WP Require Import hcobs.Stuffing hcobs.EncSink.
From WP Require iovec.Pipe iovec.PipeProofs iovec.PipeProofs2 iovec.PipeProofs3 iovec.PipeProofs4.
Import ListNotations.

Definition ren (m : nat -> nat) (c : cell) : Pipe.cell := match c with CB b => Pipe.Byte b | CH id => Pipe.Hole (m id) end.

Record SR (m : nat -> nat) (s : sink) (p : Pipe.st) : Prop := {
  sr_cells : map (ren m) (cells s) = Pipe.abs p;
  sr_ids : forall id, In (CH id) (cells s) -> id < nid s;
  sr_inj : forall a b, a < nid s -> b < nid s -> m a = m b -> a = b;
  sr_bound : forall a, a < nid s -> m a <= Pipe.logical p }.

Lemma SR_empty m : SR m s_empty Pipe.empty_st.
Proof. constructor; cbn; try reflexivity; intros; try lia; try contradiction. Qed.

Lemma map_ren_ext m m' cs : (forall id, In (CH id) cs -> m id = m' id) -> map (ren m) cs = map (ren m') cs.
Proof.
  intros H. apply map_ext_in. intros [b|id] Hin; cbn [ren]; [reflexivity|]. now rewrite (H id Hin).
Qed.
Lemma map_ren_bytes m bs : map (ren m) (map CB bs) = map Pipe.Byte bs.
Proof. rewrite map_map. reflexivity. Qed.
Lemma map_ren_repeat m id n : map (ren m) (repeat (CH id) n) = repeat (Pipe.Hole (m id)) n.
Proof. induction n as [|n IH]; [reflexivity|]. cbn [repeat map ren]. now rewrite IH. Qed.

(* ---- push ---- *)
Theorem sim_push m s p merged bs : SR m s p -> SR m (s_push s bs) (Pipe.push merged bs p).
Proof.
  intros S. constructor; cbn [s_push cells nid].
  - rewrite map_app, map_ren_bytes, PipeProofs2.push_refines, (sr_cells m s p S). reflexivity.
  - intros id Hin. apply in_app_or in Hin as [Hin|Hin]; [now apply (sr_ids m s p S)|]. apply in_map_iff in Hin as (b & Hb & _). discriminate.
  - apply (sr_inj m s p S).
  - intros a Ha. pose proof (sr_bound m s p S a Ha). unfold Pipe.push. destruct bs; cbn [Pipe.logical]; lia.
Qed.

(* ---- register: the sink names the new placeholder nid, the pipe names it by the logical position where it ends ---- *)
Theorem sim_register m s p merged pat : SR m s p -> pat <> [] ->
  let m' := fun x => if Nat.eqb x (nid s) then Pipe.logical p + length pat else m x in
  SR m' (fst (s_register s (length pat))) (fst (Pipe.register merged pat p)) /\
  snd (Pipe.register merged pat p) = Some (m' (snd (s_register s (length pat)))).
Proof.
  intros S Hne m'. destruct (PipeProofs2.register_refines merged pat p Hne) as (Habs & Hid).
  assert (Hold : forall id, id < nid s -> m' id = m id).
  { intros id Hlt. unfold m'. destruct (Nat.eqb id (nid s)) eqn:E; [apply Nat.eqb_eq in E; lia|reflexivity]. }
  assert (Hnew : m' (nid s) = Pipe.logical p + length pat) by (unfold m'; now rewrite Nat.eqb_refl).
  assert (Hlog : Pipe.logical (fst (Pipe.register merged pat p)) = Pipe.logical p + length pat).
  { unfold Pipe.register. destruct pat; [congruence|]. reflexivity. }
  assert (Hpos : 0 < length pat) by (destruct pat; [congruence|cbn; lia]).
  split; [|cbn [s_register snd]; rewrite Hid, Hnew; reflexivity].
  constructor; cbn [s_register fst cells nid].
  - rewrite map_app, map_ren_repeat, Hnew, Habs. f_equal. rewrite <- (sr_cells m s p S).
    apply map_ren_ext. intros id Hin. apply Hold. now apply (sr_ids m s p S).
  - intros id Hin. apply in_app_or in Hin as [Hin|Hin]; [pose proof (sr_ids m s p S id Hin); lia|].
    apply repeat_spec in Hin. inversion Hin. lia.
  - intros a b Ha Hb E.
    destruct (Nat.eq_dec a (nid s)) as [->|Na]; destruct (Nat.eq_dec b (nid s)) as [->|Nb]; try reflexivity.
    + rewrite Hnew, (Hold b) in E by lia. pose proof (sr_bound m s p S b ltac:(lia)). lia.
    + rewrite Hnew, (Hold a) in E by lia. pose proof (sr_bound m s p S a ltac:(lia)). lia.
    + rewrite (Hold a), (Hold b) in E by lia. apply (sr_inj m s p S); lia.
  - intros a Ha. rewrite Hlog. destruct (Nat.eq_dec a (nid s)) as [->|Na]; [rewrite Hnew; lia|].
    rewrite Hold by lia. pose proof (sr_bound m s p S a ltac:(lia)). lia.
Qed.

(* ---- backfill ---- *)
Lemma ren_fill m id : forall cs src, (forall i, In (CH i) cs -> m i = m id -> i = id) ->
  map (ren m) (fill id src cs) = Pipe.fill_cells (m id) src (map (ren m) cs).
Proof.
  induction cs as [|c cs IH]; intros src Hinj; [reflexivity|].
  assert (Hinj' : forall i, In (CH i) cs -> m i = m id -> i = id) by (intros i Hi; apply Hinj; now right).
  destruct c as [b|i]; cbn [fill map ren Pipe.fill_cells].
  - f_equal. now apply IH.
  - destruct (Nat.eqb i id) eqn:E.
    + apply Nat.eqb_eq in E. subst i. rewrite Nat.eqb_refl. destruct src as [|x src']; cbn [map ren]; f_equal; now apply IH.
    + apply Nat.eqb_neq in E. destruct (Nat.eqb (m i) (m id)) eqn:E2.
      * apply Nat.eqb_eq in E2. exfalso. apply E. apply Hinj; [now left|exact E2].
      * cbn [map ren]. f_equal. now apply IH.
Qed.
Lemma in_fill id src : forall cs i, In (CH i) (fill id src cs) -> In (CH i) cs.
Proof.
  intros cs. revert src. induction cs as [|c cs IH]; intros src i H; [destruct H|].
  destruct c as [b|j]; cbn [fill] in H.
  - destruct H as [H|H]; [discriminate|]. right. eapply IH; eauto.
  - destruct (Nat.eqb j id).
    + destruct src as [|x src']; destruct H as [H|H]; try discriminate; try (inversion H; now left); right; eapply IH; eauto.
    + destruct H as [H|H]; [inversion H; now left|]. right. eapply IH; eauto.
Qed.

Theorem sim_backfill m s p id bs s' p' : SR m s p -> PipeProofs.Inv p -> id < nid s ->
  s_backfill s id bs = Ok s' -> Pipe.backfill (m id) bs p = Some p' -> SR m s' p'.
Proof.
  intros S I Hid Es Ep. unfold s_backfill in Es. destruct (count_holes id (cells s) =? length bs); [|discriminate].
  inversion Es; subst s'. clear Es. constructor; cbn [cells nid].
  - rewrite (PipeProofs.backfill_refines p (m id) bs p' I Ep). unfold PipeProofs.fill. rewrite <- (sr_cells m s p S).
    apply (ren_fill m id). intros i Hi E. apply (sr_inj m s p S); [now apply (sr_ids m s p S)|exact Hid|exact E].
  - intros i Hi. apply (sr_ids m s p S). eapply in_fill; eauto.
  - apply (sr_inj m s p S).
  - intros a Ha. pose proof (sr_bound m s p S a Ha).
    unfold Pipe.backfill in Ep. destruct (find _ (Pipe.table p)); [|discriminate].
    repeat match type of Ep with (if ?c then _ else _) = _ => destruct c; [discriminate|] end.
    destruct (nth_error _ _); [|discriminate].
    match type of Ep with (if ?c then _ else _) = _ => destruct c; [discriminate|] end. inversion Ep. cbn [Pipe.logical]. exact H.
Qed.

(* ---- Read: a drain of the sink that returns the same bytes ---- *)
Lemma ren_prefix m : forall out cs X, map (ren m) cs = map Pipe.Byte out ++ X ->
  exists rest, cs = map CB out ++ rest /\ map (ren m) rest = X.
Proof.
  induction out as [|b out IH]; intros cs X H; [exists cs; auto|].
  destruct cs as [|c cs]; [discriminate|]. cbn [map app] in H. inversion H as [[Hc Hr]].
  destruct c as [b'|i]; cbn [ren] in Hc; [|discriminate]. inversion Hc; subst b'.
  destruct (IH cs X Hr) as (rest & -> & Hx). exists rest. auto.
Qed.
Lemma stable_bytes_app out rest : stable (map CB out ++ rest) = out ++ stable rest.
Proof. induction out as [|b out IH]; [reflexivity|]. cbn [map app stable]. now rewrite IH. Qed.

Lemma skipn_map_app out rest : skipn (length out) (map CB out ++ rest) = rest.
Proof. induction out as [|b out IH]; [reflexivity|]. exact IH. Qed.

Theorem sim_read m s p k : SR m s p -> PipeProofs.Inv p ->
  let out := snd (Pipe.read k p) in
  SR m (s_drain s (length out)) (fst (Pipe.read k p)) /\
  taken (s_drain s (length out)) = taken s ++ out.
Proof.
  intros S I out. destruct (PipeProofs4.read_refines k p I) as (_ & _ & Habs). fold out in Habs.
  pose proof (sr_cells m s p S) as Hc. rewrite Habs in Hc.
  destruct (ren_prefix m out (cells s) _ Hc) as (rest & Ecells & Hrest).
  assert (Hst : stable (cells s) = out ++ stable rest) by (rewrite Ecells; apply stable_bytes_app).
  assert (Hn : Nat.min (length out) (length (stable (cells s))) = length out) by (rewrite Hst, app_length; lia).
  unfold s_drain. rewrite Hn. cbn [taken cells nid]. split.
  - constructor; cbn [cells nid].
    + rewrite Ecells, skipn_map_app. exact Hrest.
    + intros id Hin. apply (sr_ids m s p S). rewrite Ecells in Hin |- *. rewrite skipn_map_app in Hin.
      apply in_or_app. now right.
    + apply (sr_inj m s p S).
    + intros a Ha. pose proof (sr_bound m s p S a Ha) as Hb.
      unfold Pipe.read, Pipe.advance. cbn [fst].
      destruct (Pipe.drop_bytes _ (Pipe.slices p)) as [sl kk]. cbn [fst Pipe.logical]. exact Hb.
  - rewrite Hst, firstn_app, firstn_all, Nat.sub_diag. cbn [firstn]. now rewrite app_nil_r.
Qed.

(* the hole-free prefix is the same on both sides, hence so is the number of cells from the first hole on *)
Lemma stable_ren m cs : Pipe.stable_cells (map (ren m) cs) = stable cs.
Proof. induction cs as [|c cs IH]; [reflexivity|]. destruct c as [b|i]; cbn [map ren Pipe.stable_cells stable]; [now rewrite IH|reflexivity]. Qed.
Lemma sr_cell_lag m s p : SR m s p ->
  length (Pipe.abs p) - length (Pipe.stable_cells (Pipe.abs p)) = length (cells s) - length (stable (cells s)).
Proof. intros S. rewrite <- (sr_cells m s p S), stable_ren, map_length. reflexivity. Qed.
