(* StreamChunker::pump never hands out memory that overlaps a slice somebody else already holds: for any set D of in-bounds
   slices that do not overlap the carried-over buffer, the new buffer and the Data chunk handed out do not overlap them
   either (they are sub-slices of the old buffer, or fresh allocations above every in-bounds slice of their chunk). *)
From Coq Require Import List NArith Lia Bool Arith.
From WP Require Import hcobs.Stuffing hcobs.EncChunks hcobs.Chunker.
From WP Require Import iovec.Geo iovec.GeoMem iovec.GeoProofs iovec.GeoAslice hcobs.GeoChunker.
Import ListNotations.
Open Scope nat_scope.

(* no overlap: vacuous for an empty slice *)
Definition nov (s x : gsl) : Prop := sl_len x = 0%N \/ sl_before s x.

Section Dis.
Variable D : gsl -> Prop.
Definition Dis (x : gsl) : Prop := forall s0, D s0 -> nov s0 x.

Lemma Dis_default : Dis (as_sl as_default).
Proof. intros s0 _. left. reflexivity. Qed.

Lemma Dis_skip x n : (n <= sl_len x)%N -> Dis x -> Dis (sl_skip x n).
Proof.
  intros Hn H s0 Hd. specialize (H s0 Hd). unfold nov in *.
  destruct x as [c o l|bs]; cbn [sl_skip sl_len] in *.
  - destruct (N.eq_dec (l - n) 0) as [E|E]; [left; exact E|right]. destruct H as [H|H]; [lia|].
    destruct s0 as [c0 o0 l0|]; cbn [sl_before] in *; auto. intros Ec. specialize (H Ec). lia.
  - right. destruct s0; exact Logic.I.
Qed.
Lemma Dis_keep x n : (n <= sl_len x)%N -> Dis x -> Dis (sl_keep x n).
Proof.
  intros Hn H s0 Hd. specialize (H s0 Hd). unfold nov in *.
  destruct x as [c o l|bs]; cbn [sl_keep sl_len] in *.
  - destruct (N.eq_dec n 0) as [E|E]; [left; exact E|right]. destruct H as [H|H]; [lia|].
    destruct s0 as [c0 o0 l0|]; cbn [sl_before] in *; auto. intros Ec. specialize (H Ec). lia.
  - right. destruct s0; exact Logic.I.
Qed.

Lemma read_dis h k got count h' k' a : cache_ok h k -> heap_ok h -> (forall s0, D s0 -> sl_ok h s0) ->
  (0 < count)%N -> (nlen got <= count)%N -> as_read_n h k got count = Some (h', k', a) -> Dis (as_sl a).
Proof.
  intros Hk Hh HD Hc Hle E. unfold as_read_n in E.
  destruct (arena_read_n h k got count) as [[[[h1 k1] s] an]|] eqn:EA; [|discriminate]. inversion E; subst h1 k1 a; clear E.
  destruct (arena_read_n_spec _ _ _ _ _ _ _ _ Hk Hh Hc Hle EA) as (kk & _ & _ & _ & _ & _ & _ & Es & _ & _ & Hend & _).
  cbn [as_sl]. subst s. intros s0 Hd. pose proof (HD s0 Hd) as O0. right.
  destruct s0 as [c0 o0 l0|]; cbn [sl_before]; [|exact Logic.I]. intros Ec. left.
  specialize (Hend (SArena c0 o0 l0) O0). cbn [sl_chunk sl_end] in Hend. apply Hend. now rewrite Ec.
Qed.

Definition chunk_dis (c : gchunk) : Prop := match c with GData _ a => Dis (as_sl a) | _ => True end.

Lemma gfill_dis : forall fuel bs h k s, CInv h k s -> (forall s0, D s0 -> sl_ok h s0) -> Dis (as_sl (gbuf s)) ->
  match gfill fuel bs h k s with
  | None => True
  | Some (h', k', inl s1) => Dis (as_sl (gbuf s1))
  | Some (h', k', inr (c, s1)) => Dis (as_sl (gbuf s1)) /\ chunk_dis c
  end.
Proof.
  induction fuel as [|fuel IH]; intros bs h k s I HD Hb; cbn [gfill]; [exact Hb|].
  destruct (2 <=? length (buf_bytes h s)) eqn:E2; [exact Hb|].
  destruct (refill (length (buf_bytes h s) + Nat.max bs 1) (buf_bytes h s) (grest s)) as [got r'] eqn:R.
  assert (Hgot : length got <= length (buf_bytes h s) + Nat.max bs 1).
  { unfold refill in R. inversion R. rewrite firstn_length. lia. }
  destruct (as_read_n h k got (N.of_nat (length (buf_bytes h s) + Nat.max bs 1))) as [[[h1 k1] a]|] eqn:EA; [|exact Logic.I].
  assert (Hw : 0 < length (buf_bytes h s) + Nat.max bs 1) by (pose proof (Nat.le_max_r bs 1); lia).
  destruct (read_step _ _ _ _ _ _ _ _ I Hw Hgot EA) as (F & HL & Hh1 & Hk1 & Ha & Eb & El).
  assert (Da : Dis (as_sl a)).
  { destruct I as [Hh Hk _]. set (want := length (buf_bytes h s) + Nat.max bs 1) in *.
    assert (P1 : (0 < N.of_nat want)%N) by lia. assert (P2 : (nlen got <= N.of_nat want)%N) by (unfold nlen; lia).
    exact (read_dis h k got (N.of_nat want) h1 k1 a Hk Hh HD P1 P2 EA). }
  destruct (N.to_nat (as_len a) =? length (buf_bytes h s)).
  - destruct (length (buf_bytes h s) =? 0); (split; [exact Dis_default|]); [exact Logic.I|exact Da].
  - apply IH; [constructor; auto| |exact Da]. intros s0 Hd. apply F. now apply HD.
Qed.

Lemma as_len_le_ok h a : as_ok h a -> True.
Proof. auto. Qed.

Theorem gpump_dis bs h k s : CInv h k s -> (forall s0, D s0 -> sl_ok h s0) -> Dis (as_sl (gbuf s)) ->
  match gpump bs h k s with
  | None => True
  | Some (h', k', c, s') => Dis (as_sl (gbuf s')) /\ chunk_dis c
  end.
Proof.
  intros I HD Hb. unfold gpump. pose proof (gfill_dis 3 bs h k s I HD Hb) as G.
  destruct (gfill 3 bs h k s) as [[[h1 k1] [s1|[c s1]]]|]; [| |exact Logic.I].
  - destruct (starts_stuff (buf_bytes h1 s1)).
    + cbn [gbuf fst as_skip_prefix as_sl]. split; [|exact Logic.I]. apply Dis_skip; [|exact G]. unfold as_len. lia.
    + set (sp0 := match find_stuff (buf_bytes h1 s1) with
                  | Some i => i
                  | None => if ends_fe (buf_bytes h1 s1) then length (buf_bytes h1 s1) - 1 else length (buf_bytes h1 s1)
                  end).
      unfold as_split_at. destruct (as_len (gbuf s1) <=? N.of_nat sp0)%N eqn:El.
      * cbn [gbuf chunk_dis]. split; [exact Dis_default|exact G].
      * apply N.leb_gt in El. cbn [gbuf chunk_dis as_sl]. unfold as_len in El. split.
        -- apply Dis_skip; [lia|exact G].
        -- apply Dis_keep; [lia|exact G].
  - exact G.
Qed.
End Dis.

(* a chunk handed out by the refill loop itself (end of stream): nothing is kept *)
Lemma gfill_inr_default : forall fuel bs h k s h' k' c s1, gfill fuel bs h k s = Some (h', k', inr (c, s1)) -> gbuf s1 = as_default.
Proof.
  induction fuel as [|fuel IH]; intros bs h k s h' k' c s1 E; cbn [gfill] in E; [discriminate|].
  destruct (2 <=? length (buf_bytes h s)); [discriminate|].
  destruct (refill (length (buf_bytes h s) + Nat.max bs 1) (buf_bytes h s) (grest s)) as [got r'].
  destruct (as_read_n h k got (N.of_nat (length (buf_bytes h s) + Nat.max bs 1))) as [[[h1 k1] a]|]; [|discriminate].
  destruct (N.to_nat (as_len a) =? length (buf_bytes h s)).
  - destruct (length (buf_bytes h s) =? 0); inversion E; reflexivity.
  - eapply IH; eauto.
Qed.

(* the Data chunk handed out and the buffer kept do not overlap each other *)
Theorem gpump_split_dis bs h k s : CInv h k s ->
  match gpump bs h k s with
  | Some (h', k', GData _ a, s') => nov (as_sl a) (as_sl (gbuf s'))
  | _ => True
  end.
Proof.
  intros I. unfold gpump. pose proof (gfill_refines 3 bs h k s I) as G.
  destruct (gfill 3 bs h k s) as [[[h1 k1] [s1|[c s1]]]|] eqn:EF; [| |exact Logic.I].
  - destruct G as (_ & _ & I1 & _). destruct (starts_stuff (buf_bytes h1 s1)); [exact Logic.I|].
    set (sp0 := match find_stuff (buf_bytes h1 s1) with
                | Some i => i
                | None => if ends_fe (buf_bytes h1 s1) then length (buf_bytes h1 s1) - 1 else length (buf_bytes h1 s1)
                end).
    pose proof (as_split_at_ok h1 (gbuf s1) (N.of_nat sp0) (ci_buf _ _ _ I1)) as SP.
    destruct (as_split_at (gbuf s1) (N.of_nat sp0)) as [pre rem] eqn:ES. cbn [gbuf].
    destruct SP as (_ & _ & _ & _ & _ & Hadj).
    unfold as_split_at in ES. destruct (as_len (gbuf s1) <=? N.of_nat sp0)%N eqn:El.
    + inversion ES; subst. left. reflexivity.
    + apply N.leb_gt in El. destruct (Hadj El) as [(_ & _ & Hm)|Hz]; [|unfold as_len in *; lia].
      destruct (as_sl pre) as [c lo ll|]; destruct (as_sl rem) as [c' ro rl|]; try contradiction.
      right. cbn [sl_before]. intros _. left. lia.
  - destruct c as [o| |o a]; try exact Logic.I. rewrite (gfill_inr_default _ _ _ _ _ _ _ _ _ EF). left. reflexivity.
Qed.
