(* The input of one encode / decode call as memory: either caller memory (SExt, immutable by the borrow checker) or an
   anchored slice of an arena chunk (encode_anchored / decode_anchored) that the codec pushes piecewise, interleaved
   with copies and placeholder writes into the same arena.  InpOK says that the part of the input not yet consumed still
   reads the bytes it had at the call, lies inside the written part of its chunk, and overlaps no slice of the iovec;
   every operation the codecs perform on the iovec preserves it. *)
From Coq Require Import List NArith Bool Arith Lia.
From WP Require Import iovec.Geo iovec.GeoMem iovec.GeoProofs iovec.GeoRefine iovec.GeoHistory iovec.GeoWorld.
Import ListNotations.
Open Scope N_scope.

Definition rest (c : nat) (o n : N) (off : nat) : prange := (c, o + N.of_nat off, n - N.of_nat off).

Definition InpOK (h : heap) (g : giov) (inp : gsl) (p : list N) (off : nat) : Prop :=
  match inp with
  | SExt q => q = p
  | SArena c o n =>
    n = nlen p /\
    sl_bytes h (SArena c (o + N.of_nat off) (n - N.of_nat off)) = skipn off p /\
    ((off < length p)%nat ->
     in_data h (rest c o n off) /\ forall s0, In s0 (gslices g) -> rdisj (rest c o n off) s0)
  end.

Lemma InpOK_ext h g p off : InpOK h g (SExt p) p off.
Proof. reflexivity. Qed.

Lemma read_shift {A} (d : list A) (a len k : N) :
  nfirstn (len - k) (nskipn (a + k) d) = nskipn k (nfirstn len (nskipn a d)).
Proof.
  unfold nfirstn, nskipn. rewrite skipn_firstn_comm, GeoMem.skipn_skipn'. f_equal; [lia|]. f_equal. lia.
Qed.

Lemma InpOK_advance h g inp p off off' : InpOK h g inp p off -> (off <= off')%nat -> InpOK h g inp p off'.
Proof.
  destruct inp as [c o n|q]; cbn [InpOK]; [|auto]. intros (En & Eb & H) Hle.
  split; [exact En|]. split.
  - replace (o + N.of_nat off') with ((o + N.of_nat off) + N.of_nat (off' - off)) by lia.
    replace (n - N.of_nat off') with ((n - N.of_nat off) - N.of_nat (off' - off)) by lia.
    cbn [sl_bytes] in *. rewrite read_shift, Eb. unfold nskipn. rewrite Nat2N.id, GeoMem.skipn_skipn'. f_equal. lia.
  - intros Hlt. destruct (H ltac:(lia)) as (D & X). unfold rest, in_data, nlen in *. split.
    + destruct D as (D1 & D2 & D3). repeat split; [exact D1|lia|lia].
    + intros s0 Hin. specialize (X s0 Hin). destruct s0 as [c0 o0 l0|bs]; cbn [rdisj] in *; [|exact Logic.I].
      intros Ec. specialize (X Ec). lia.
Qed.

(* ---- allocations and appends (push_copy, register_patch, ...): anything with an `effect` ---- *)
Lemma InpOK_effect h g h' g' inp p off : effect h g h' g' -> InpOK h g inp p off -> InpOK h' g' inp p off.
Proof.
  intros E. destruct inp as [c o n|q]; cbn [InpOK]; [|auto]. intros (En & Eb & H).
  split; [exact En|]. pose proof (ef_heap _ _ _ _ E) as HE.
  destruct (Nat.lt_ge_cases off (length p)) as [Hlt|Hge].
  - destruct (H Hlt) as (D & X). unfold rest, in_data in D. destruct D as (D1 & D2 & D3).
    destruct (he_grow _ _ _ HE c D1) as (_ & tail & Et).
    split.
    + rewrite <- Eb. cbn [sl_bytes]. rewrite Et. apply read_app_l. lia.
    + intros _. split.
      * unfold rest, in_data. pose proof (he_len _ _ _ HE). repeat split; [lia|lia|]. rewrite Et, nlen_app. lia.
      * apply (ef_cover _ _ _ _ E); [|exact X]. unfold rest, in_data. auto.
  - split; [|intros; lia]. rewrite <- Eb. cbn [sl_bytes]. unfold nlen in En.
    replace (n - N.of_nat off) with 0 by lia. reflexivity.
Qed.

(* ---- backfill_or_panic: a write inside a slice of the iovec ---- *)
Lemma in_update_nth {A} (f : A -> A) : forall (l : list A) i x, In x (update_nth i f l) -> In x l \/ exists y, In y l /\ x = f y.
Proof.
  induction l as [|a l IH]; intros i x H; [destruct i; contradiction|].
  destruct i as [|i]; cbn [update_nth] in H.
  - destruct H as [<-|H]; [right; exists a; split; [now left|reflexivity]|left; now right].
  - destruct H as [<-|H]; [left; now left|]. destruct (IH i x H) as [Hl|(y & Hy & ->)]; [left; now right|right; exists y; split; [now right|reflexivity]].
Qed.

Lemma InpOK_backfill h g b src h' g' inp p off :
  GInv h g -> BInv g -> backfill h (Some b) src g = Some (h', g') -> InpOK h g inp p off -> InpOK h' g' inp p off.
Proof.
  intros I B E. destruct inp as [c o n|q]; cbn [InpOK]; [|auto]. intros (En & Eb & H).
  split; [exact En|].
  destruct (backfill_shape _ _ _ _ _ _ E) as (Hin & Hlen & _ & _ & _ & Hshape).
  destruct (Nat.lt_ge_cases off (length p)) as [Hlt|Hge].
  2:{ split; [|intros; lia]. rewrite <- Eb. cbn [sl_bytes]. unfold nlen in En. replace (n - N.of_nat off) with 0 by lia. reflexivity. }
  destruct (H Hlt) as (D & X). pose proof D as D0. unfold rest, in_data in D. destruct D as (D1 & D2 & D3).
  destruct Hshape as [(c' & lo & Hb & -> & Esl)|(bs & i & Ht & -> & -> & Esl)].
  - (* an arena placeholder *)
    unfold babs in Hb. destruct (tgt g b) as [t|] eqn:Et; [|discriminate]. destruct t as [ct ot lt|]; [|discriminate].
    inversion Hb; subst c' lo. clear Hb.
    destruct (bi_target g B b Hin) as (_ & t' & Et' & Hfit & _). rewrite Et in Et'. inversion Et'; subst t'. cbn [sl_len] in Hfit.
    assert (Hint : In (SArena ct ot lt) (gslices g)) by (unfold tgt in Et; eapply nth_error_In; eauto).
    pose proof (gi_slices h g I) as F. rewrite Forall_forall in F. pose proof (F _ Hint) as Ot. cbn [sl_ok] in Ot.
    pose proof (X _ Hint) as Dj. cbn [rest rdisj] in Dj.
    assert (Hbytes : sl_bytes (heap_poke h ct (ot + bbegin b) src) (SArena c (o + N.of_nat off) (n - N.of_nat off)) =
                     sl_bytes h (SArena c (o + N.of_nat off) (n - N.of_nat off))).
    { cbn [sl_bytes]. destruct (Nat.eq_dec c ct) as [->|Nc]; [|now rewrite chunk_at_poke_other].
      rewrite chunk_at_poke_same by tauto. cbn [cdata]. specialize (Dj eq_refl).
      destruct Dj as [Dj|Dj]; [apply read_poke_before; lia|f_equal; apply read_poke_after; lia]. }
    split; [rewrite Hbytes; exact Eb|]. intros _. split.
    + unfold rest, in_data. rewrite length_heap_poke. repeat split; [exact D1|exact D2|].
      destruct (Nat.eq_dec c ct) as [->|Nc]; [|now rewrite chunk_at_poke_other].
      rewrite chunk_at_poke_same by tauto. cbn [cdata]. rewrite nlen_poke by lia. exact D3.
    + rewrite Esl. exact X.
  - (* a placeholder in caller memory *)
    split; [exact Eb|]. intros _. split; [exact D0|].
    intros s0 Hs0. rewrite Esl in Hs0. destruct (in_update_nth _ _ _ _ Hs0) as [Hl|(y & _ & ->)]; [now apply X|exact Logic.I].
Qed.

(* ---- the next k bytes of the input pushed borrowed ---- *)
Lemma InpOK_sub_ok h g c o n p off k : InpOK h g (SArena c o n) p off -> (0 < k)%nat -> (off + k <= length p)%nat ->
  sl_ok h (SArena c (o + N.of_nat off) (N.of_nat k)) /\
  (forall s0, In s0 (gslices g) -> sl_before s0 (SArena c (o + N.of_nat off) (N.of_nat k))) /\
  sl_bytes h (SArena c (o + N.of_nat off) (N.of_nat k)) = firstn k (skipn off p).
Proof.
  cbn [InpOK]. intros (En & Eb & H) Hk Hle. destruct (H ltac:(lia)) as (D & X).
  unfold rest, in_data, nlen in *. destruct D as (D1 & D2 & D3). split; [|split].
  - cbn [sl_ok]. unfold nlen. repeat split; [exact D1|lia|lia].
  - intros s0 Hin. specialize (X s0 Hin). destruct s0 as [c0 o0 l0|bs]; cbn [sl_before rdisj] in *; [|exact Logic.I].
    intros Ec. symmetry in Ec. specialize (X Ec). lia.
  - rewrite <- Eb. cbn [sl_bytes]. unfold nfirstn. rewrite firstn_firstn. f_equal. lia.
Qed.

Lemma InpOK_push_borrowed h g c o n p off k g' :
  InpOK h g (SArena c o n) p off -> (0 < k)%nat -> (off + k <= length p)%nat ->
  push_borrowed (SArena c (o + N.of_nat off) (N.of_nat k)) g = Some g' -> InpOK h g' (SArena c o n) p (off + k).
Proof.
  intros IO Hk Hle E. pose proof (InpOK_advance _ _ _ _ _ (off + k) IO ltac:(lia)) as IO'.
  cbn [InpOK] in *. destruct IO' as (En & Eb & H'). split; [exact En|]. split; [exact Eb|].
  intros Hlt. destruct (H' Hlt) as (D & X). split; [exact D|].
  unfold push_borrowed in E. cbn [sl_len] in E. destruct (N.of_nat k =? 0) eqn:E0; [apply N.eqb_eq in E0; lia|].
  match type of E with context [back ?L] => destruct (back L) as [a|]; [|discriminate] end.
  destruct (optimize_spec _ _ E) as (_ & _ & _ & _ & _ & [Esame|(front & c' & lo & ll & rl & Eg1 & Eg')]); cbn [gslices] in *.
  - rewrite Esame. intros s0 Hs0. apply in_app_or in Hs0 as [Hs0|[<-|[]]]; [now apply X|].
    cbn [rest rdisj]. intros _. right. lia.
  - change (front ++ [SArena c' lo ll; SArena c' (lo + ll) rl]) with (front ++ [SArena c' lo ll] ++ [SArena c' (lo + ll) rl]) in Eg1.
    rewrite app_assoc in Eg1. apply app_inj_tail in Eg1 as (Eg & Enew). inversion Enew; subst c' rl.
    rewrite Eg'. intros s0 Hs0. apply in_app_or in Hs0 as [Hs0|[<-|[]]].
    + apply X. rewrite Eg. apply in_or_app. now left.
    + cbn [rest rdisj]. intros _. right. lia.
Qed.

(* OwningIovec::push of the next k bytes of the input, whichever way the policy decides *)
Lemma InpOK_push_sub h g inp p off k h' g' :
  GInv h g -> BInv g -> InpOK h g inp p off -> (0 < k)%nat -> (off + k <= length p)%nat ->
  push h (sl_keep (sl_skip inp (N.of_nat off)) (N.of_nat k)) g = Some (h', g') -> InpOK h' g' inp p (off + k).
Proof.
  intros I B IO Hk Hle E. destruct inp as [c o n|q]; [|exact IO]. cbn [sl_skip sl_keep] in E. unfold push in E.
  match type of E with (if ?x then _ else _) = _ => destruct x end.
  - apply (InpOK_advance _ _ _ _ off); [|lia]. eapply InpOK_effect; [|exact IO]. eapply effect_push_copy; eauto.
  - destruct (push_borrowed (SArena c (o + N.of_nat off) (N.of_nat k)) g) as [gx|] eqn:EB; [|discriminate].
    inversion E; subst h' gx. eapply InpOK_push_borrowed; eauto.
Qed.
