(* C16: faithful model of sliding_deque/src/sorted_deque.rs over the list semantics that C15 gives
   to the underlying SlidingDeque (pop_front = tl, pop_back = removelast, advance = skipn), for
   items (key, Option value) -- the `(Key, Option<Value>)` convention; the whole-item convention
   with an order on the key alone is the same model.  `None` results of `step` are panics.
   No proofs here. *)
From Coq Require Import List ZArith Bool.
Import ListNotations.
Open Scope Z_scope.

Definition item := (Z * option Z)%type.
Definition key (it : item) : Z := fst it.
Definition live (it : item) : bool := match snd it with Some _ => true | None => false end.

Definition opt_live (o : option item) : bool := match o with Some a => live a | None => true end.
(* debug_assert_ne!(front.map(is_erased), Some(true)); same for back *)
Definition check_rep (l : list item) : bool := opt_live (hd_error l) && opt_live (hd_error (rev l)).

(* cleanup_front: index of the first live item (usize::MAX if none), then advance *)
Fixpoint drop_erased_front (l : list item) : list item :=
  match l with a :: t => if live a then l else drop_erased_front t | [] => [] end.
(* cleanup_back: pop_back while the back is erased *)
Definition drop_erased_back (l : list item) : list item := rev (drop_erased_front (rev l)).

(* binary_search_by on keys; on a strictly sorted slice it returns the unique matching index *)
Fixpoint find_index (k : Z) (l : list item) : option nat :=
  match l with
  | [] => None
  | a :: t => if key a =? k then Some O else option_map S (find_index k t)
  end.

Fixpoint mark (i : nat) (l : list item) : list item :=
  match l, i with
  | [], _ => []
  | a :: t, O => (fst a, None) :: t
  | a :: t, S j => a :: mark j t
  end.

Inductive op := Push (it : item) | Find (k : Z) | Remove (k : Z) | PopFirst | PopLast | Clear
              | Iter | First | Last | IsEmpty.
Inductive out := OUnit | OItem (o : option item) | OList (l : list item) | OBool (b : bool).

Definition checked (l : list item) (x : out) : option (list item * out) :=
  if check_rep l then Some (l, x) else None.

Definition pop_first (l : list item) : option (list item * out) :=
  if check_rep l then
    match l with
    | [] => Some (l, OItem None)
    | a :: t => checked (drop_erased_front t) (OItem (Some a))
    end
  else None.

Definition pop_last (l : list item) : option (list item * out) :=
  if check_rep l then
    match rev l with
    | [] => Some (l, OItem None)
    | a :: t => checked (drop_erased_back (rev t)) (OItem (Some a))
    end
  else None.

Definition push (it : item) (l : list item) : option (list item * out) :=
  if check_rep l then
    if negb (live it) then Some (l, OUnit)
    else match hd_error (rev l) with
         | Some b => if key b <? key it then checked (l ++ [it]) OUnit else None   (* assert_eq!(cmp, Less) *)
         | None => checked (l ++ [it]) OUnit
         end
  else None.

Definition find (k : Z) (l : list item) : option (list item * out) :=
  if check_rep l then
    match find_index k l with
    | None => Some (l, OItem None)
    | Some i => match nth_error l i with
                | None => None                                   (* slice index out of range *)
                | Some it => Some (l, OItem (if live it then Some it else None))
                end
    end
  else None.

Definition remove (k : Z) (l : list item) : option (list item * out) :=
  match find_index k l with
  | None => Some (l, OItem None)
  | Some i =>
    match nth_error l i with
    | None => None
    | Some it =>
      if negb (live it) then Some (l, OItem None)
      else if (i =? 0)%nat then pop_first l
      else if (i =? length l - 1)%nat then pop_last l
      else Some (mark i l, OItem (Some it))
    end
  end.

Definition step (l : list item) (o : op) : option (list item * out) :=
  match o with
  | Push it => push it l
  | Find k => find k l
  | Remove k => remove k l
  | PopFirst => pop_first l
  | PopLast => pop_last l
  | Clear => if check_rep l then checked [] OUnit else None
  | Iter => if check_rep l then Some (l, OList (filter live l)) else None
  | First => if check_rep l then Some (l, OItem (hd_error l)) else None
  | Last => if check_rep l then Some (l, OItem (hd_error (rev l))) else None
  | IsEmpty => if check_rep l then Some (l, OBool (match l with [] => true | _ => false end)) else None
  end.

(* ---- the specification: an ordered map as a strictly sorted association list of live items,
        with append-only insertion.  None = the documented panic of push_back_or_panic. ---- *)
Definition has_key (k : Z) (it : item) : bool := key it =? k.

Definition sstep (m : list item) (o : op) : option (list item * out) :=
  match o with
  | Push it => if negb (live it) then Some (m, OUnit)
               else match hd_error (rev m) with
                    | Some b => if key b <? key it then Some (m ++ [it], OUnit) else None
                    | None => Some (m ++ [it], OUnit)
                    end
  | Find k => Some (m, OItem (List.find (has_key k) m))
  | Remove k => Some (filter (fun it => negb (has_key k it)) m, OItem (List.find (has_key k) m))
  | PopFirst => Some (tl m, OItem (hd_error m))
  | PopLast => Some (removelast m, OItem (hd_error (rev m)))
  | Clear => Some ([], OUnit)
  | Iter => Some (m, OList m)
  | First => Some (m, OItem (hd_error m))
  | Last => Some (m, OItem (hd_error (rev m)))
  | IsEmpty => Some (m, OBool (match m with [] => true | _ => false end))
  end.

(* histories: outputs up to the first panic, and whether a panic happened *)
Fixpoint run (f : list item -> op -> option (list item * out)) (l : list item) (ops : list op)
  : list out * option (list item) :=
  match ops with
  | [] => ([], Some l)
  | o :: r => match f l o with
              | None => ([], None)
              | Some (l', x) => let '(xs, fin) := run f l' r in (x :: xs, fin)
              end
  end.
