(* C16 over C15: the calls SortedDeque makes on its SlidingDeque, run on the faithful SlidingDeque
   model (consumed prefix, slides, check_rep), produce the list-level state that deque/Sorted.v
   works with; the SlidingDeque never panics underneath. *)
From Coq Require Import List ZArith Bool Arith NArith Lia.
From WP Require Import deque.Sliding deque.SlidingProofs deque.Sorted.
Import ListNotations.

Definition usize_max : N := 18446744073709551615%N.

(* cleanup_front: index of the first live item, usize::MAX if there is none *)
Fixpoint first_live (l : list item) : option nat :=
  match l with [] => None | a :: t => if live a then Some O else option_map S (first_live t) end.
Definition to_drop (l : list item) : N :=
  match first_live l with Some i => N.of_nat i | None => usize_max end.
(* cleanup_back: how many times the loop pops; the argument is the reversed list *)
Fixpoint erased_run (r : list item) : nat :=
  match r with a :: t => if live a then O else S (erased_run t) | [] => O end.

Definition pop_first_calls (l : list item) : list (Sliding.op item) :=
  match l with [] => [PopFront] | _ :: t => [PopFront; Advance (to_drop t)] end.
Definition pop_last_calls (l : list item) : list (Sliding.op item) :=
  match rev l with [] => [PopBack] | _ :: t => PopBack :: repeat PopBack (erased_run t) end.

(* the mutating calls made on self.items by each SortedDeque operation in list state l *)
Definition calls (l : list item) (o : Sorted.op) : list (Sliding.op item) :=
  match o with
  | Push it => if live it then [PushBack it] else []
  | PopFirst => pop_first_calls l
  | PopLast => pop_last_calls l
  | Remove k =>
    match find_index k l with
    | Some i => match nth_error l i with
                | Some it => if negb (live it) then []
                             else if (i =? 0)%nat then pop_first_calls l
                             else if (i =? length l - 1)%nat then pop_last_calls l
                             else [Write i (fst it, None)]
                | None => []
                end
    | None => []
    end
  | Sorted.Clear => [Sliding.Clear]
  | _ => []
  end.

Fixpoint popn (n : nat) (l : list item) : list item :=
  match n with O => l | S m => popn m (removelast l) end.

Lemma lrun_popbacks n : forall l, fst (lrun l (repeat PopBack n)) = popn n l.
Proof.
  induction n as [|n IH]; intros l; [reflexivity|]. cbn [repeat lrun lstep popn].
  specialize (IH (removelast l)). destruct (lrun (removelast l) (repeat PopBack n)) as [l2 xs]. exact IH.
Qed.

Lemma popn_erased t : popn (erased_run t) (rev t) = rev (drop_erased_front t).
Proof.
  induction t as [|a t IH]; [reflexivity|]. cbn [erased_run drop_erased_front]. destruct (live a).
  - reflexivity.
  - cbn [popn rev]. rewrite removelast_last. exact IH.
Qed.

Lemma first_live_some t i : first_live t = Some i -> (i < length t)%nat /\ skipn i t = drop_erased_front t.
Proof.
  revert i. induction t as [|a t IH]; intros i H; [discriminate|]. cbn [first_live drop_erased_front] in *.
  destruct (live a).
  - inversion H; subst. cbn. split; [lia|reflexivity].
  - destruct (first_live t) as [j|]; [|discriminate]. inversion H; subst. destruct (IH j eq_refl) as (L & E).
    cbn [length skipn]. split; [lia|exact E].
Qed.
Lemma first_live_none t : first_live t = None -> drop_erased_front t = [].
Proof.
  induction t as [|a t IH]; intros H; [reflexivity|]. cbn [first_live drop_erased_front] in *.
  destruct (live a); [discriminate|]. destruct (first_live t); [discriminate|]. now apply IH.
Qed.

Lemma advance_to_drop t : (N.of_nat (length t) <= usize_max)%N ->
  skipn (N.to_nat (N.min (N.of_nat (length t)) (to_drop t))) t = drop_erased_front t.
Proof.
  intros B. unfold to_drop. destruct (first_live t) as [i|] eqn:E.
  - destruct (first_live_some t i E) as (L & S). rewrite N.min_r by lia. now rewrite Nat2N.id.
  - rewrite N.min_l by exact B. rewrite Nat2N.id, skipn_all. symmetry. now apply first_live_none.
Qed.

Lemma set_nth_mark i : forall l it, nth_error l i = Some it -> set_nth item i (fst it, None) l = mark i l.
Proof.
  induction i as [|i IH]; intros [|a t] it H; try discriminate.
  - inversion H; subst. reflexivity.
  - cbn [set_nth mark]. f_equal. now apply IH.
Qed.

Lemma pop_first_calls_ok l l' x : (N.of_nat (length l) <= usize_max)%N ->
  pop_first l = Some (l', x) -> fst (lrun l (pop_first_calls l)) = l'.
Proof.
  intros B H. unfold pop_first in H. destruct (check_rep l); [|discriminate]. destruct l as [|a t].
  - inversion H; subst. reflexivity.
  - unfold checked in H. destruct (check_rep (drop_erased_front t)); [|discriminate]. inversion H; subst.
    cbn [pop_first_calls lrun lstep tl fst]. apply advance_to_drop. cbn [length] in B. lia.
Qed.

Lemma pop_last_calls_ok l l' x : pop_last l = Some (l', x) -> fst (lrun l (pop_last_calls l)) = l'.
Proof.
  intros H. unfold pop_last in H. destruct (check_rep l); [|discriminate]. unfold pop_last_calls.
  destruct (rev l) as [|a t] eqn:E.
  - inversion H; subst. apply (f_equal (@rev item)) in E. rewrite rev_involutive in E. subst l'. reflexivity.
  - unfold checked in H. destruct (check_rep (drop_erased_back (rev t))); [|discriminate]. inversion H; subst.
    apply (f_equal (@rev item)) in E. rewrite rev_involutive in E. cbn [rev] in E. subst l.
    cbn [lrun lstep]. rewrite removelast_last.
    pose proof (lrun_popbacks (erased_run t) (rev t)) as P.
    destruct (lrun (rev t) (repeat PopBack (erased_run t))) as [l2 xs]. cbn [fst] in *. rewrite P.
    unfold drop_erased_back. rewrite rev_involutive. apply popn_erased.
Qed.

(* every state-changing SortedDeque operation, as calls on the list deque *)
Theorem calls_list l o l' x : (N.of_nat (length l) <= usize_max)%N ->
  Sorted.step l o = Some (l', x) -> fst (lrun l (calls l o)) = l'.
Proof.
  intros B H. destruct o as [it|k|k| | | | | | |]; cbn [Sorted.step calls] in *.
  - unfold push in H. destruct (check_rep l); [|discriminate]. destruct (live it); cbn [negb] in H.
    + assert (E : checked (l ++ [it]) OUnit = Some (l', x) -> fst (lrun l [PushBack it]) = l').
      { unfold checked. destruct (check_rep (l ++ [it])); [|discriminate]. intros E; inversion E; subst. reflexivity. }
      destruct (hd_error (rev l)) as [b|]; [destruct (key b <? key it)%Z; [|discriminate]|]; now apply E.
    + inversion H; subst. reflexivity.
  - unfold find in H. destruct (check_rep l); [|discriminate]. destruct (find_index k l) as [i|].
    + destruct (nth_error l i); [|discriminate]. inversion H; subst. reflexivity.
    + inversion H; subst. reflexivity.
  - unfold remove in H. destruct (find_index k l) as [i|]; [|inversion H; subst; reflexivity].
    destruct (nth_error l i) as [it|] eqn:N; [|discriminate]. destruct (negb (live it)); [inversion H; subst; reflexivity|].
    destruct (i =? 0)%nat; [now apply (pop_first_calls_ok l l' x)|].
    destruct (i =? length l - 1)%nat; [now apply (pop_last_calls_ok l l' x)|].
    inversion H; subst. cbn [lrun lstep].
    assert (L : (i <? length l)%nat = true) by (apply Nat.ltb_lt, nth_error_Some; congruence).
    rewrite L. cbn [fst]. now apply set_nth_mark.
  - now apply (pop_first_calls_ok l l' x).
  - now apply (pop_last_calls_ok l l' x).
  - destruct (check_rep l); [|discriminate]. unfold checked in H. cbn in H. inversion H; subst. reflexivity.
  - destruct (check_rep l); [|discriminate]. inversion H; subst. reflexivity.
  - destruct (check_rep l); [|discriminate]. inversion H; subst. reflexivity.
  - destruct (check_rep l); [|discriminate]. inversion H; subst. reflexivity.
  - destruct (check_rep l); [|discriminate]. inversion H; subst. reflexivity.
Qed.

(* ... and on the faithful SlidingDeque model: from any representation d of the list (whatever
   its consumed prefix), the calls return without panic, check_rep holds afterwards, and the view
   is the list state deque/Sorted.v computes *)
Theorem calls_sliding (d : sd item) o l' x :
  Sliding.check_rep d = true -> (N.of_nat (length (view d)) <= usize_max)%N ->
  Sorted.step (view d) o = Some (l', x) ->
  exists d' outs, Sliding.run d (calls (view d) o) = Some (d', outs) /\ Sliding.check_rep d' = true /\ view d' = l'.
Proof.
  intros R B H. destruct (run_refines item (calls (view d) o) d R) as (d' & E & R' & V).
  exists d', (snd (lrun (view d) (calls (view d) o))). split; [exact E|]. split; [exact R'|].
  rewrite V. now apply (calls_list (view d) o l' x).
Qed.
