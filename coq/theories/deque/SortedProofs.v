From Coq Require Import List ZArith Bool Lia Sorting.Sorted.
From WP Require Import deque.Sorted.
Import ListNotations.
Open Scope Z_scope.

Definition klt (a b : item) : Prop := key a < key b.
Definition SS (l : list item) : Prop := StronglySorted klt l.
Definition abs (l : list item) : list item := filter live l.
Definition Inv (l : list item) : Prop := SS l /\ check_rep l = true.

(* ---- generic list facts ---- *)
Lemma SS_app l1 l2 : SS (l1 ++ l2) <-> SS l1 /\ SS l2 /\ (forall a b, In a l1 -> In b l2 -> klt a b).
Proof.
  unfold SS. induction l1 as [|x l1 IH]; cbn [app].
  - split; [intros H; repeat split; auto; [constructor|intros a b []]|tauto].
  - split.
    + intros H. inversion H as [|? ? H1 H2]; subst. apply IH in H1 as (A & B & C).
      rewrite Forall_app in H2. destruct H2 as (H2 & H3). rewrite Forall_forall in H3.
      split; [constructor; auto|]. split; auto. intros a b [<-|Ha] Hb; auto.
    + intros (A & B & C). inversion A as [|? ? A1 A2]; subst. constructor.
      * apply IH. repeat split; auto. intros a b Ha Hb. apply C; auto. now right.
      * rewrite Forall_app. split; auto. rewrite Forall_forall. intros b Hb. apply C; auto. now left.
Qed.
Lemma SS_cons a l : SS (a :: l) <-> SS l /\ (forall b, In b l -> klt a b).
Proof.
  unfold SS. split.
  - intros H. inversion H; subst. split; auto. now rewrite <- Forall_forall.
  - intros (A & B). constructor; auto. now rewrite Forall_forall.
Qed.
Lemma SS_nil : SS []. Proof. constructor. Qed.
Lemma SS_one a : SS [a]. Proof. apply SS_cons. split; [apply SS_nil|intros b []]. Qed.

Lemma filter_rev' {A} (f : A -> bool) l : filter f (rev l) = rev (filter f l).
Proof.
  induction l as [|a t IH]; [reflexivity|]. cbn [rev filter]. rewrite filter_app, IH. cbn [filter].
  destruct (f a); cbn [rev]; [reflexivity|now rewrite app_nil_r].
Qed.
Lemma abs_app l1 l2 : abs (l1 ++ l2) = abs l1 ++ abs l2. Proof. apply filter_app. Qed.
Lemma abs_rev l : abs (rev l) = rev (abs l). Proof. apply filter_rev'. Qed.

Lemma hd_rev_app {A} (l1 l2 : list A) : l2 <> [] -> hd_error (rev (l1 ++ l2)) = hd_error (rev l2).
Proof.
  intros H. rewrite rev_app_distr. destruct (rev l2) eqn:E; [|reflexivity].
  apply (f_equal (@rev A)) in E. rewrite rev_involutive in E. cbn in E. congruence.
Qed.
Lemma hd_app {A} (l1 l2 : list A) : l1 <> [] -> hd_error (l1 ++ l2) = hd_error l1.
Proof. destruct l1; [congruence|reflexivity]. Qed.
Lemma rev_eq_nil {A} (l : list A) : rev l = [] -> l = [].
Proof. intros E. apply (f_equal (@rev A)) in E. now rewrite rev_involutive in E. Qed.
Lemma rev_eq_cons {A} (l : list A) a t : rev l = a :: t -> l = rev t ++ [a].
Proof. intros E. apply (f_equal (@rev A)) in E. now rewrite rev_involutive in E. Qed.

Lemma filter_id {A} (f : A -> bool) l : (forall x, In x l -> f x = true) -> filter f l = l.
Proof. induction l as [|a t IH]; intros H; [reflexivity|]. cbn. rewrite H by now left. f_equal. apply IH. intros; apply H; now right. Qed.
Lemma find_none_all {A} (f : A -> bool) l : (forall x, In x l -> f x = false) -> List.find f l = None.
Proof. induction l as [|a t IH]; intros H; [reflexivity|]. cbn. rewrite H by now left. apply IH. intros; apply H; now right. Qed.
Lemma find_app {A} (f : A -> bool) l1 l2 : List.find f (l1 ++ l2) = match List.find f l1 with Some x => Some x | None => List.find f l2 end.
Proof. induction l1 as [|a t IH]; [reflexivity|]. cbn. destruct (f a); auto. Qed.

Lemma abs_in x l : In x (abs l) -> In x l /\ live x = true.
Proof. unfold abs. apply filter_In. Qed.

(* ---- check_rep and the ends of the abstraction ---- *)
Lemma check_rep_nil : check_rep [] = true. Proof. reflexivity. Qed.
Lemma check_rep_hd l : check_rep l = true -> hd_error (abs l) = hd_error l.
Proof.
  unfold check_rep. intros H. apply andb_true_iff in H as (H & _). destruct l as [|a t]; [reflexivity|].
  cbn in H. unfold abs. cbn [filter]. rewrite H. reflexivity.
Qed.
Lemma check_rep_last l : check_rep l = true -> hd_error (rev (abs l)) = hd_error (rev l).
Proof.
  unfold check_rep. intros H. apply andb_true_iff in H as (_ & H). rewrite <- abs_rev.
  destruct (rev l) as [|a t]; [reflexivity|]. cbn in H. unfold abs. cbn [filter]. rewrite H. reflexivity.
Qed.
Lemma check_rep_intro l : opt_live (hd_error l) = true -> opt_live (hd_error (rev l)) = true -> check_rep l = true.
Proof. unfold check_rep. intros -> ->. reflexivity. Qed.

(* ---- drop_erased_front ---- *)
Lemma drop_front_split l : exists pre, l = pre ++ drop_erased_front l /\ (forall x, In x pre -> live x = false)
  /\ opt_live (hd_error (drop_erased_front l)) = true.
Proof.
  induction l as [|a t (pre & E & F & G)]; [exists []; repeat split; auto; intros x []|]. cbn [drop_erased_front]. destruct (live a) eqn:La.
  - exists []. repeat split; auto; try (intros x []).
  - exists (a :: pre). split; [cbn; now rewrite <- E|]. split; auto. intros x [<-|Hx]; auto.
Qed.
Lemma abs_dead pre : (forall x, In x pre -> live x = false) -> abs pre = [].
Proof. induction pre as [|a t IH]; intros H; [reflexivity|]. unfold abs. cbn. rewrite H by now left. apply IH. intros; apply H; now right. Qed.
Lemma abs_drop_front l : abs (drop_erased_front l) = abs l.
Proof. destruct (drop_front_split l) as (pre & E & F & _). rewrite E at 2. rewrite abs_app, (abs_dead pre F). reflexivity. Qed.

(* ---- pop_first ---- *)
Lemma pop_first_refines l : Inv l ->
  exists l', pop_first l = Some (l', OItem (hd_error (abs l))) /\ abs l' = tl (abs l) /\ Inv l'.
Proof.
  intros (Hs & Hr). unfold pop_first. rewrite Hr. rewrite (check_rep_hd l Hr).
  destruct l as [|a t]; [exists []; repeat split; auto|]. cbn [hd_error].
  assert (La : live a = true) by (unfold check_rep in Hr; apply andb_true_iff in Hr as (Hr & _); exact Hr).
  destruct (drop_front_split t) as (pre & E & F & G).
  assert (R' : check_rep (drop_erased_front t) = true).
  { apply check_rep_intro; auto. destruct (drop_erased_front t) as [|b r] eqn:D; [reflexivity|].
    assert (EL : a :: t = (a :: pre) ++ b :: r) by (cbn; now rewrite <- E).
    rewrite <- (hd_rev_app (a :: pre) (b :: r)) by discriminate. rewrite <- EL.
    unfold check_rep in Hr. apply andb_true_iff in Hr as (_ & Hr). exact Hr. }
  unfold checked. rewrite R'. eexists. split; [reflexivity|]. split.
  - rewrite abs_drop_front. unfold abs. cbn [filter]. rewrite La. reflexivity.
  - split; auto. apply SS_cons in Hs as (Hs & _). rewrite E in Hs. apply SS_app in Hs. tauto.
Qed.

(* ---- pop_last ---- *)
Lemma pop_last_refines l : Inv l ->
  exists l', pop_last l = Some (l', OItem (hd_error (rev (abs l)))) /\ abs l' = removelast (abs l) /\ Inv l'.
Proof.
  intros (Hs & Hr). unfold pop_last. rewrite Hr. rewrite (check_rep_last l Hr).
  destruct (rev l) as [|a t] eqn:ER.
  - apply rev_eq_nil in ER. subst l. exists []. repeat split; auto; try apply SS_nil.
  - apply rev_eq_cons in ER. cbn [hd_error].
    assert (La : live a = true).
    { unfold check_rep in Hr. apply andb_true_iff in Hr as (_ & Hr). subst l. rewrite rev_app_distr in Hr. exact Hr. }
    unfold drop_erased_back. rewrite rev_involutive.
    destruct (drop_front_split t) as (pre & E & F & G).
    set (res := rev (drop_erased_front t)).
    assert (EP : rev t = res ++ rev pre) by (unfold res; rewrite <- rev_app_distr, <- E; reflexivity).
    assert (R' : check_rep res = true).
    { apply check_rep_intro.
      - destruct res as [|b r] eqn:D; [reflexivity|].
        assert (hd_error l = Some b) by (subst l; rewrite EP; reflexivity).
        unfold check_rep in Hr. apply andb_true_iff in Hr as (Hr & _). rewrite H in Hr. exact Hr.
      - unfold res. rewrite rev_involutive. exact G. }
    unfold checked. rewrite R'. eexists. split; [reflexivity|]. split.
    + unfold res. rewrite abs_rev, abs_drop_front, <- abs_rev. subst l. rewrite abs_app.
      unfold abs at 3. cbn [filter]. rewrite La. now rewrite removelast_last.
    + split; auto. subst l. rewrite EP in Hs. apply SS_app in Hs as (Hs & _). apply SS_app in Hs. tauto.
Qed.

(* ---- find_index ---- *)
Lemma find_index_spec k l :
  (find_index k l = None /\ forall x, In x l -> key x <> k) \/
  (exists l1 it l2, l = l1 ++ it :: l2 /\ key it = k /\ find_index k l = Some (length l1) /\ forall x, In x l1 -> key x <> k).
Proof.
  induction l as [|a t IH]; [left; split; auto|]. cbn [find_index]. destruct (key a =? k) eqn:E.
  - right. exists [], a, t. apply Z.eqb_eq in E. repeat split; auto; try (intros x []).
  - apply Z.eqb_neq in E. destruct IH as [(F & N)|(l1 & it & l2 & -> & K & F & N)].
    + left. rewrite F. split; auto. intros x [<-|Hx]; auto.
    + right. exists (a :: l1), it, l2. rewrite F. repeat split; auto. intros x [<-|Hx]; auto.
Qed.

Lemma SS_split_keys l1 it l2 : SS (l1 ++ it :: l2) ->
  (forall x, In x l1 -> key x < key it) /\ (forall x, In x l2 -> key it < key x).
Proof.
  intros H. apply SS_app in H as (_ & H2 & H3). apply SS_cons in H2 as (_ & H2).
  split; [intros x Hx; apply (H3 x it); auto; now left|exact H2].
Qed.

(* lookups and removals on the abstraction of a split list *)
Lemma spec_find_split l1 it l2 : SS (l1 ++ it :: l2) ->
  List.find (has_key (key it)) (abs (l1 ++ it :: l2)) = if live it then Some it else None.
Proof.
  intros H. destruct (SS_split_keys _ _ _ H) as (A & B). rewrite abs_app, find_app.
  rewrite find_none_all.
  2:{ intros x Hx. apply abs_in in Hx as (Hx & _). unfold has_key. apply Z.eqb_neq. specialize (A x Hx). lia. }
  unfold abs at 1. cbn [filter]. destruct (live it); cbn [List.find].
  - unfold has_key. now rewrite Z.eqb_refl.
  - apply find_none_all. intros x Hx. apply abs_in in Hx as (Hx & _). unfold has_key. apply Z.eqb_neq. specialize (B x Hx). lia.
Qed.
Lemma spec_remove_split l1 it l2 : SS (l1 ++ it :: l2) ->
  filter (fun x => negb (has_key (key it) x)) (abs (l1 ++ it :: l2)) = abs l1 ++ abs l2.
Proof.
  intros H. destruct (SS_split_keys _ _ _ H) as (A & B). rewrite abs_app, filter_app. f_equal.
  - apply filter_id. intros x Hx. apply abs_in in Hx as (Hx & _). unfold has_key. apply negb_true_iff, Z.eqb_neq. specialize (A x Hx). lia.
  - unfold abs at 1. cbn [filter]. assert (E : filter (fun x => negb (has_key (key it) x)) (abs l2) = abs l2).
    { apply filter_id. intros x Hx. apply abs_in in Hx as (Hx & _). unfold has_key. apply negb_true_iff, Z.eqb_neq. specialize (B x Hx). lia. }
    destruct (live it); cbn [filter]; [unfold has_key at 1; rewrite Z.eqb_refl; cbn [negb]|]; exact E.
Qed.
Lemma spec_absent l k : (forall x, In x l -> key x <> k) ->
  List.find (has_key k) (abs l) = None /\ filter (fun x => negb (has_key k x)) (abs l) = abs l.
Proof.
  intros N. split.
  - apply find_none_all. intros x Hx. apply abs_in in Hx as (Hx & _). unfold has_key. apply Z.eqb_neq. auto.
  - apply filter_id. intros x Hx. apply abs_in in Hx as (Hx & _). unfold has_key. apply negb_true_iff, Z.eqb_neq. auto.
Qed.

Lemma nth_error_mid {A} (l1 : list A) x l2 : nth_error (l1 ++ x :: l2) (length l1) = Some x.
Proof. rewrite nth_error_app2 by lia. now rewrite Nat.sub_diag. Qed.

Lemma mark_mid l1 it l2 : mark (length l1) (l1 ++ it :: l2) = l1 ++ (fst it, None) :: l2.
Proof. induction l1 as [|a t IH]; [reflexivity|]. cbn. now rewrite IH. Qed.

Lemma SS_same_keys l1 it it' l2 : key it' = key it -> SS (l1 ++ it :: l2) -> SS (l1 ++ it' :: l2).
Proof.
  intros K H. apply SS_app in H as (A & B & C). apply SS_cons in B as (B1 & B2). apply SS_app. split; auto. split.
  - apply SS_cons. split; auto. intros b Hb. unfold klt. rewrite K. apply B2. exact Hb.
  - intros a b Ha [<-|Hb].
    + unfold klt. rewrite K. apply (C a it); auto. now left.
    + apply C; auto. now right.
Qed.

Lemma check_rep_mid l1 x y l2 : l1 <> [] -> l2 <> [] -> check_rep (l1 ++ x :: l2) = check_rep (l1 ++ y :: l2).
Proof.
  intros H1 H2. unfold check_rep. rewrite !hd_app by exact H1.
  change (l1 ++ x :: l2) with (l1 ++ [x] ++ l2). change (l1 ++ y :: l2) with (l1 ++ [y] ++ l2).
  rewrite !app_assoc, !hd_rev_app by exact H2. reflexivity.
Qed.

(* ---- one step of the model against the specification ---- *)
Theorem step_refines l o : Inv l ->
  match sstep (abs l) o with
  | None => step l o = None
  | Some (m', x) => exists l', step l o = Some (l', x) /\ abs l' = m' /\ Inv l'
  end.
Proof.
  intros HI. pose proof HI as (Hs & Hr). destruct o as [it|k|k| | | | | | |]; cbn [sstep step].
  - (* push *) unfold push. rewrite Hr. destruct (live it) eqn:Li; cbn [negb]; [|exists l; auto].
    rewrite (check_rep_last l Hr).
    assert (HP : forall b, hd_error (rev l) = Some b \/ (hd_error (rev l) = None) ->
                 (hd_error (rev l) = None \/ (hd_error (rev l) = Some b /\ key b < key it)) ->
                 exists l', checked (l ++ [it]) OUnit = Some (l', OUnit) /\ abs l' = abs l ++ [it] /\ Inv l').
    { intros b _ Hb. assert (R' : check_rep (l ++ [it]) = true).
      { apply check_rep_intro.
        - destruct l as [|a t]; [exact Li|]. unfold check_rep in Hr. apply andb_true_iff in Hr as (Hr & _). exact Hr.
        - rewrite rev_app_distr. exact Li. }
      unfold checked. rewrite R'. eexists. split; [reflexivity|]. split.
      - rewrite abs_app. unfold abs at 2. cbn [filter]. now rewrite Li.
      - split; auto. apply SS_app. split; auto. split; [apply SS_one|].
        intros a c Ha [<-|[]]. destruct Hb as [Hb|(Hb & Hlt)].
        + apply rev_eq_nil in Hb || (destruct (rev l) eqn:E; [apply rev_eq_nil in E; subst l; destruct Ha|discriminate]).
        + destruct (rev l) as [|b' t] eqn:E; [discriminate|]. inversion Hb; subst b'. apply rev_eq_cons in E. subst l.
          apply in_app_or in Ha as [Ha|[<-|[]]]; auto. unfold klt. apply SS_app in Hs as (_ & _ & Hs).
          specialize (Hs a b Ha ltac:(now left)). unfold klt in Hs. lia. }
    destruct (hd_error (rev l)) as [b|] eqn:HL.
    + destruct (key b <? key it) eqn:Lt; [|reflexivity]. apply Z.ltb_lt in Lt. apply (HP b); auto.
    + apply (HP it); auto.
  - (* find *) unfold find. rewrite Hr. destruct (find_index_spec k l) as [(F & N)|(l1 & it & l2 & -> & K & F & N)].
    + rewrite F. exists l. destruct (spec_absent l k N) as (-> & _). auto.
    + rewrite F, nth_error_mid. subst k. rewrite spec_find_split by auto. exists (l1 ++ it :: l2). auto.
  - (* remove *) unfold remove. destruct (find_index_spec k l) as [(F & N)|(l1 & it & l2 & E & K & F & N)].
    + rewrite F. exists l. destruct (spec_absent l k N) as (-> & ->). auto.
    + subst l k. rewrite F, nth_error_mid, spec_find_split, spec_remove_split by auto.
      destruct (live it) eqn:Li; cbn [negb].
      2:{ exists (l1 ++ it :: l2). split; auto. split; auto. rewrite abs_app. unfold abs at 2. cbn [filter]. now rewrite Li. }
      destruct (Nat.eqb_spec (length l1) 0) as [E0|E0].
      * (* index 0 *) apply length_zero_iff_nil in E0. subst l1. cbn [app] in *.
        destruct (pop_first_refines (it :: l2) HI) as (l' & P & A & I').
        assert (EA : abs (it :: l2) = it :: abs l2) by (unfold abs; cbn [filter]; now rewrite Li).
        rewrite EA in P, A. cbn [hd_error tl] in P, A. rewrite P.
        exists l'. split; [reflexivity|]. split; auto.
      * destruct (Nat.eqb_spec (length l1) (length (l1 ++ it :: l2) - 1)) as [E1|E1].
        -- (* last index *)
           assert (l2 = []) by (rewrite app_length in E1; cbn [length] in E1; apply length_zero_iff_nil; lia). subst l2.
           destruct (pop_last_refines _ HI) as (l' & P & A & I').
           assert (EA : abs (l1 ++ [it]) = abs l1 ++ [it]) by (rewrite abs_app; unfold abs at 2; cbn [filter]; now rewrite Li).
           rewrite EA in P, A. rewrite rev_app_distr in P. cbn [rev app hd_error] in P. rewrite removelast_last in A. rewrite P.
           exists l'. split; [reflexivity|]. split; auto. rewrite A. change (abs []) with (@nil item). now rewrite app_nil_r.
        -- (* middle *)
           destruct l1 as [|a1 l1]; [cbn [length] in E0; congruence|].
           destruct l2 as [|b2 l2]; [exfalso; apply E1; rewrite app_length; cbn [length]; lia|].
           rewrite mark_mid.
           eexists. split; [reflexivity|]. split.
           ++ rewrite abs_app. unfold abs at 2. cbn [filter live snd]. reflexivity.
           ++ split; [eapply SS_same_keys; [|exact Hs]; reflexivity|].
              rewrite <- Hr. apply check_rep_mid; discriminate.
  - (* pop_first *) destruct (pop_first_refines l HI) as (l' & P & A & I'). exists l'. auto.
  - (* pop_last *) destruct (pop_last_refines l HI) as (l' & P & A & I'). exists l'. auto.
  - (* clear *) rewrite Hr. exists []. repeat split; auto; try apply SS_nil.
  - (* iter *) rewrite Hr. exists l. auto.
  - (* first *) rewrite Hr, (check_rep_hd l Hr). exists l. auto.
  - (* last *) rewrite Hr, (check_rep_last l Hr). exists l. auto.
  - (* is_empty *) rewrite Hr. exists l. split; auto.
    assert (E : match abs l with [] => true | _ :: _ => false end = match l with [] => true | _ :: _ => false end).
    { pose proof (check_rep_hd l Hr) as H. destruct l as [|a t]; [reflexivity|]. destruct (abs (a :: t)); [discriminate|reflexivity]. }
    rewrite E. reflexivity.
Qed.

(* ---- every history ---- *)
Theorem run_refines ops : forall l, Inv l ->
  fst (run step l ops) = fst (run sstep (abs l) ops) /\
  match snd (run step l ops), snd (run sstep (abs l) ops) with
  | Some l', Some m' => abs l' = m' /\ Inv l'
  | None, None => True
  | _, _ => False
  end.
Proof.
  induction ops as [|o r IH]; intros l HI; cbn [run].
  - cbn [fst snd]. auto.
  - pose proof (step_refines l o HI) as H. destruct (sstep (abs l) o) as [[m' x]|].
    + destruct H as (l' & -> & A & I'). specialize (IH l' I'). rewrite A in IH.
      destruct (run step l' r) as [xs fin]. destruct (run sstep m' r) as [ys fin']. cbn [fst snd] in *.
      destruct IH as (-> & IH). auto.
    + rewrite H. cbn [fst snd]. auto.
Qed.

Lemma Inv_nil : Inv []. Proof. split; [apply SS_nil|reflexivity]. Qed.

(* the specification only ever panics in push_back_or_panic with a key that is not above the last *)
Lemma sstep_panic_only_push m o : sstep m o = None ->
  exists it b, o = Push it /\ live it = true /\ hd_error (rev m) = Some b /\ key it <= key b.
Proof.
  destruct o; cbn [sstep]; try discriminate. destruct (live it) eqn:L; cbn [negb]; [|discriminate].
  destruct (hd_error (rev m)) as [b|] eqn:E; [|discriminate]. destruct (key b <? key it) eqn:C; [discriminate|].
  apply Z.ltb_ge in C. intros _. exists it, b. auto.
Qed.

(* ---- the specification is an ordered map: facts the property's wording relies on ---- *)
Definition MapInv (m : list item) : Prop := SS m /\ forall x, In x m -> live x = true.

Lemma abs_MapInv l : SS l -> MapInv (abs l).
Proof.
  intros H. split; [|intros x Hx; apply abs_in in Hx; tauto].
  induction l as [|a t IH]; [apply SS_nil|]. apply SS_cons in H as (H1 & H2). unfold abs. cbn [filter].
  destruct (live a); auto. apply SS_cons. split; auto. intros b Hb. apply abs_in in Hb as (Hb & _). auto.
Qed.

Lemma spec_removed_not_found k m : List.find (has_key k) (filter (fun it => negb (has_key k it)) m) = None.
Proof.
  apply find_none_all. intros x Hx. apply filter_In in Hx as (_ & Hx). now apply negb_true_iff in Hx.
Qed.
Lemma spec_find_sound k m it : List.find (has_key k) m = Some it -> In it m /\ key it = k.
Proof. intros H. apply find_some in H as (H1 & H2). split; auto. now apply Z.eqb_eq in H2. Qed.
Lemma spec_find_complete k m it : MapInv m -> In it m -> key it = k -> List.find (has_key k) m = Some it.
Proof.
  intros (Hs & _) Hin K. apply in_split in Hin as (l1 & l2 & ->). destruct (SS_split_keys _ _ _ Hs) as (A & B).
  rewrite find_app, find_none_all.
  - cbn [List.find]. unfold has_key. subst k. now rewrite Z.eqb_refl.
  - intros x Hx. unfold has_key. apply Z.eqb_neq. specialize (A x Hx). lia.
Qed.
Lemma spec_first_smallest m a x : MapInv m -> hd_error m = Some a -> In x (tl m) -> key a < key x.
Proof. intros (Hs & _) H Hx. destruct m as [|a' t]; [discriminate|]. inversion H; subst a'. apply SS_cons in Hs as (_ & Hs). apply Hs. exact Hx. Qed.
Lemma spec_last_largest m a x : MapInv m -> hd_error (rev m) = Some a -> In x (removelast m) -> key x < key a.
Proof.
  intros (Hs & _) H Hx. destruct (rev m) as [|a' t] eqn:E; [discriminate|]. inversion H; subst a'.
  apply rev_eq_cons in E. subst m. rewrite removelast_last in Hx. apply SS_app in Hs as (_ & _ & Hs). apply (Hs x a); auto. now left.
Qed.
