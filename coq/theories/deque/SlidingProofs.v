From Coq Require Import List Lia Arith Bool NArith ZArith Zify ZifyNat ZifyBool ZifyN.
From WP Require Import deque.Sliding.
Import ListNotations.
Ltac Zify.zify_post_hook ::= Z.div_mod_to_equations.

Section SDP.
Variable A : Type.
Notation sd := (sd A).

Lemma view_nil_iff (d : sd) : view d = [] <-> length (cont d) <= consumed d.
Proof.
  unfold view. split; intros H.
  - apply (f_equal (@length _)) in H. rewrite skipn_length in H. cbn in H. lia.
  - apply skipn_all2. exact H.
Qed.
Lemma is_empty_true (d : sd) : is_empty A d = true <-> length (cont d) <= consumed d.
Proof. unfold is_empty. rewrite <- view_nil_iff. destruct (view d); split; intros; congruence. Qed.

(* the representation invariant, as a proposition *)
Definition Rep (d : sd) : Prop :=
  consumed d <= length (cont d) / 2 /\ (length (cont d) <= consumed d -> consumed d = 0).

Lemma check_rep_spec (d : sd) : check_rep d = true <-> Rep d.
Proof.
  unfold check_rep, Rep. rewrite andb_true_iff, orb_true_iff, negb_true_iff, Nat.eqb_eq, Nat.leb_le.
  destruct (is_empty A d) eqn:E.
  - apply is_empty_true in E. split; [intros ([?|?] & ?); [discriminate|lia]|intros (? & H); split; auto].
  - assert (~ length (cont d) <= consumed d) by (intros H; apply is_empty_true in H; congruence).
    split; [intros (_ & ?); split; auto; lia|intros (? & _); auto].
Qed.

(* what the property says about space: the dead prefix is at most half the container *)
Lemma Rep_space (d : sd) : Rep d -> 2 * consumed d <= length (cont d).
Proof. unfold Rep. lia. Qed.
Lemma Rep_empty_clean (d : sd) : Rep d -> view d = [] -> consumed d = 0.
Proof. intros (_ & H) V. apply H. apply view_nil_iff. exact V. Qed.

Lemma maybe_slide_rep (d : sd) : consumed d <= length (cont d) ->
  check_rep (maybe_slide A d) = true /\ view (maybe_slide A d) = view d.
Proof.
  intros Hc. unfold maybe_slide. destruct ((length (cont d) / 2 <? consumed d) || is_empty A d) eqn:E.
  - split; [|unfold view, slide; cbn [consumed cont skipn]; reflexivity]. apply check_rep_spec. unfold Rep, slide. cbn [consumed cont]. split; lia.
  - apply orb_false_elim in E as (E1 & E2). apply Nat.ltb_ge in E1. split; auto.
    apply check_rep_spec. split; auto. intros H. apply is_empty_true in H. congruence.
Qed.

Lemma div2_le n : n / 2 <= n. Proof. lia. Qed.

Theorem push_back_ok x (d : sd) : check_rep d = true ->
  exists d', push_back A x d = Ok d' tt /\ check_rep d' = true /\ view d' = view d ++ [x].
Proof.
  intros R. unfold push_back, checked. rewrite R. apply check_rep_spec in R as (R1 & R2).
  assert (R' : check_rep {| consumed := consumed d; cont := cont d ++ [x] |} = true).
  { apply check_rep_spec. unfold Rep. cbn [consumed cont]. rewrite app_length. cbn [length]. pose proof (div2_le (length (cont d))).
    split; lia. }
  rewrite R'. eexists. split; [reflexivity|]. split; auto.
  unfold view. cbn [consumed cont]. pose proof (div2_le (length (cont d))). rewrite skipn_app. replace (consumed d - length (cont d)) with 0 by lia. reflexivity.
Qed.

Lemma skipn_skipn_add {T} x y (l : list T) : skipn x (skipn y l) = skipn (y + x) l.
Proof. revert l. induction y as [|y IH]; intros l; [reflexivity|]. destruct l; [now destruct x|]. cbn. apply IH. Qed.

Lemma skipn_S {T} n (l : list T) : skipn (S n) l = tl (skipn n l).
Proof. revert l. induction n as [|n IH]; intros l; destruct l; cbn; auto. apply IH. Qed.

Theorem pop_front_ok (d : sd) : check_rep d = true ->
  exists d', pop_front A d = Ok d' (hd_error (view d)) /\ check_rep d' = true /\ view d' = tl (view d).
Proof.
  intros R. unfold pop_front, checked. rewrite R. destruct (view d) as [|x t] eqn:V.
  - eexists. split; [reflexivity|]. split; auto.
  - assert (Hlt : consumed d < length (cont d)).
    { destruct (Nat.lt_ge_cases (consumed d) (length (cont d))); auto. apply view_nil_iff in H. congruence. }
    destruct (maybe_slide_rep {| consumed := S (consumed d); cont := cont d |} ltac:(cbn; lia)) as (R' & V').
    rewrite R'. eexists. split; [reflexivity|]. split; auto. rewrite V'. unfold view in *. cbn [consumed cont].
    rewrite skipn_S, V. reflexivity.
Qed.

Theorem advance_ok n (d : sd) : check_rep d = true ->
  let k := N.to_nat (N.min (N.of_nat (length (view d))) n) in
  exists d', advance A n d = Ok d' k /\ check_rep d' = true /\ view d' = skipn k (view d).
Proof.
  intros R k. unfold advance, checked. rewrite R. pose proof R as R0. apply check_rep_spec in R0 as (R1 & R2).
  assert (Hk : k = N.to_nat (N.min (N.of_nat (length (cont d) - consumed d)) n)).
  { unfold k, view. rewrite skipn_length. reflexivity. }
  rewrite <- Hk.
  assert (Hkle : k <= length (cont d) - consumed d) by lia.
  destruct (maybe_slide_rep {| consumed := consumed d + k; cont := cont d |} ltac:(cbn [consumed cont]; lia)) as (R' & V').
  rewrite R'. eexists. split; [reflexivity|split; [exact R'|]].
  rewrite V'. unfold view. cbn [consumed cont]. rewrite skipn_skipn_add. reflexivity.
Qed.

Lemma rev_view_cons (d : sd) x r : rev (view d) = x :: r -> consumed d < length (cont d) /\ view d = rev r ++ [x] /\
  view {| consumed := consumed d; cont := removelast (cont d) |} = rev r /\ length (removelast (cont d)) = length (cont d) - 1.
Proof.
  intros E. assert (Ev : view d = rev r ++ [x]) by (apply (f_equal (@rev _)) in E; rewrite rev_involutive in E; exact E).
  assert (Hlt : consumed d < length (cont d)).
  { destruct (Nat.lt_ge_cases (consumed d) (length (cont d))); auto. apply view_nil_iff in H. rewrite H in Ev. destruct (rev r); discriminate. }
  assert (Ec : cont d = firstn (consumed d) (cont d) ++ rev r ++ [x]) by (rewrite <- Ev; unfold view; now rewrite firstn_skipn).
  assert (Er : removelast (cont d) = firstn (consumed d) (cont d) ++ rev r).
  { rewrite Ec at 1. rewrite app_assoc. apply removelast_last. }
  repeat split; auto.
  - unfold view. cbn [consumed cont]. rewrite Er. rewrite skipn_app, skipn_all2 by (rewrite firstn_length; lia).
    rewrite firstn_length. replace (consumed d - Nat.min (consumed d) (length (cont d))) with 0 by lia. reflexivity.
  - rewrite Er. apply (f_equal (@length _)) in Ec. rewrite !app_length in *. cbn [length] in Ec. lia.
Qed.

Theorem pop_back_ok (d : sd) : check_rep d = true ->
  exists d', pop_back A d = Ok d' (hd_error (rev (view d))) /\ check_rep d' = true /\ view d' = removelast (view d).
Proof.
  intros R. unfold pop_back, checked. rewrite R. destruct (rev (view d)) as [|x r] eqn:V.
  - eexists. split; [reflexivity|]. split; auto.
    assert (view d = []) by (apply (f_equal (@rev _)) in V; rewrite rev_involutive in V; exact V). now rewrite H.
  - destruct (rev_view_cons d x r V) as (Hlt & Ev & Ev' & Lr).
    destruct (maybe_slide_rep {| consumed := consumed d; cont := removelast (cont d) |} ltac:(cbn [consumed cont]; lia)) as (R' & V').
    rewrite R'. eexists. split; [reflexivity|]. split; auto. rewrite V', Ev', Ev. now rewrite removelast_last.
Qed.

Theorem clear_ok (d : sd) : exists d', do_clear A d = Ok d' tt /\ check_rep d' = true /\ view d' = [].
Proof. unfold do_clear, checked, clear. eexists. split; [reflexivity|]. split; reflexivity. Qed.

Theorem slide_ok (d : sd) : check_rep d = true ->
  exists d', do_slide A d = Ok d' tt /\ check_rep d' = true /\ view d' = view d.
Proof.
  intros R. apply check_rep_spec in R as (R1 & R2). unfold do_slide, checked.
  assert (R' : check_rep (slide A d) = true).
  { apply check_rep_spec. unfold Rep, slide. cbn [consumed cont]. split; lia. }
  rewrite R'. eexists. split; [reflexivity|]. split; auto.
Qed.

Lemma set_nth_length i (x : A) l : length (set_nth A i x l) = length l.
Proof. revert i. induction l as [|h t IH]; intros [|i]; cbn; auto. Qed.

Theorem write_ok i x (d : sd) : check_rep d = true ->
  exists d', write A i x d = Ok d' (i <? length (view d)) /\ check_rep d' = true /\
             view d' = (if i <? length (view d) then set_nth A i x (view d) else view d).
Proof.
  intros R. unfold write. destruct (i <? length (view d)) eqn:E.
  - eexists. split; [reflexivity|].
    pose proof R as R0. apply check_rep_spec in R0 as (R1 & R2).
    assert (Hf : length (firstn (consumed d) (cont d)) = consumed d) by (rewrite firstn_length; pose proof (div2_le (length (cont d))); lia).
    assert (Hl : length (firstn (consumed d) (cont d) ++ set_nth A i x (view d)) = length (cont d)).
    { rewrite app_length, set_nth_length, Hf. unfold view. rewrite skipn_length. pose proof (div2_le (length (cont d))). lia. }
    split.
    + apply check_rep_spec. unfold Rep. cbn [consumed cont]. rewrite Hl. split; auto.
    + unfold view at 1. cbn [consumed cont]. rewrite skipn_app, Hf, Nat.sub_diag. cbn [skipn].
      rewrite skipn_all2 by lia. reflexivity.
  - eexists. split; [reflexivity|]. split; auto.
Qed.

(* one step: no panic, the invariant is kept, and view/result follow the list semantics *)
Theorem step_refines (d : sd) o : check_rep d = true ->
  exists d', step d o = Ok d' (snd (lstep (view d) o)) /\ check_rep d' = true /\ view d' = fst (lstep (view d) o).
Proof.
  intros R. destruct o as [x| | |n| | |i x| |]; unfold step, lstep; cbn [fst snd].
  - destruct (push_back_ok x d R) as (d' & -> & ? & ?). eauto.
  - destruct (pop_front_ok d R) as (d' & -> & ? & ?). eauto.
  - destruct (pop_back_ok d R) as (d' & -> & ? & ?). eauto.
  - destruct (advance_ok n d R) as (d' & -> & ? & ?). eauto.
  - destruct (clear_ok d) as (d' & -> & ? & ?). eauto.
  - destruct (slide_ok d R) as (d' & -> & ? & ?). eauto.
  - destruct (write_ok i x d R) as (d' & -> & ? & V). exists d'. rewrite V.
    destruct (i <? length (view d)); cbn [fst snd]; auto.
  - unfold front. rewrite R. eauto.
  - unfold back. rewrite R. eauto.
Qed.

(* every history *)
Theorem run_refines ops : forall (d : sd), check_rep d = true ->
  exists d', run d ops = Some (d', snd (lrun (view d) ops)) /\ check_rep d' = true /\ view d' = fst (lrun (view d) ops).
Proof.
  induction ops as [|o r IH]; intros d R; cbn [run lrun].
  - exists d. auto.
  - destruct (step_refines d o R) as (d1 & E1 & R1 & V1). rewrite E1.
    destruct (lstep (view d) o) as [l1 x1] eqn:EL. cbn [fst snd] in *.
    destruct (IH d1 R1) as (d2 & E2 & R2 & V2). rewrite E2. rewrite V1 in *.
    destruct (lrun l1 r) as [l2 xs]. cbn [fst snd] in *. exists d2. auto.
Qed.

(* prefix-closed form: the invariant holds after every prefix of every history *)
Corollary run_prefix_rep ops1 ops2 (d : sd) : check_rep d = true ->
  exists d1, run d ops1 = Some (d1, snd (lrun (view d) ops1)) /\ Rep d1 /\
             exists d2, run d (ops1 ++ ops2) = Some (d2, snd (lrun (view d) (ops1 ++ ops2))).
Proof.
  intros R. destruct (run_refines ops1 d R) as (d1 & E1 & R1 & V1).
  exists d1. split; auto. split; [apply check_rep_spec; auto|].
  destruct (run_refines (ops1 ++ ops2) d R) as (d2 & E2 & _). eauto.
Qed.

Lemma empty_rep : check_rep (@empty A) = true. Proof. reflexivity. Qed.
Lemma from_container_rep l : check_rep (from_container l : sd) = true.
Proof. apply check_rep_spec. unfold Rep, from_container. cbn [consumed cont]. split; lia. Qed.
Lemma from_container_view l : view (from_container l : sd) = l. Proof. reflexivity. Qed.
End SDP.

(* F2 on the pre-fix pop_back: push x4, advance 2, pop_back panics (check_rep) *)
Definition f2_history (pb : sd nat -> res nat (option nat)) : res nat (option nat) :=
  match run empty [PushBack 1; PushBack 2; PushBack 3; PushBack 4; Advance 2%N] with
  | Some (d, _) => pb d
  | None => Panic
  end.
Lemma sliding_popback_prefix_refuted : f2_history (pop_back_prefix nat) = Panic.
Proof. vm_compute. reflexivity. Qed.
Lemma sliding_popback_fixed_example : exists d, f2_history (pop_back nat) = Ok d (Some 4) /\ view d = [3].
Proof. eexists. split; vm_compute; reflexivity. Qed.
