(* C16: "removed or popped keys are never found, iterated or returned again" at history level,
   first for the ordered-map specification, then (through run_refines) for the faithful model. *)
From Coq Require Import List ZArith Bool Lia.
From WP Require Import deque.Sorted deque.SortedProofs.
Import ListNotations.
Open Scope Z_scope.

(* no item of the list carries key k *)
Definition NoKey (k : Z) (m : list item) : Prop := forall x, In x m -> key x <> k.

Definition item_has (k : Z) (o : option item) : bool := match o with Some it => has_key k it | None => false end.
(* the output hands out an item with key k *)
Definition mentions (k : Z) (x : out) : bool :=
  match x with
  | OItem o => item_has k o
  | OList l => existsb (has_key k) l
  | _ => false
  end.
Definition pushes_key (k : Z) (o : op) : bool := match o with Push it => live it && has_key k it | _ => false end.

Lemma NoKey_find k m : NoKey k m -> List.find (has_key k) m = None.
Proof.
  intros H. apply find_none_all. intros x Hx. unfold has_key. apply Z.eqb_neq. now apply H.
Qed.
Lemma NoKey_found k f m : NoKey k m -> item_has k (List.find f m) = false.
Proof.
  intros H. destruct (List.find f m) as [it|] eqn:E; [|reflexivity]. apply find_some in E as (E & _).
  cbn. apply Z.eqb_neq. now apply H.
Qed.
Lemma NoKey_hd k m : NoKey k m -> item_has k (hd_error m) = false.
Proof. intros H. destruct m as [|a t]; [reflexivity|]. cbn. apply Z.eqb_neq. apply H. now left. Qed.
Lemma NoKey_exists k m : NoKey k m -> existsb (has_key k) m = false.
Proof.
  intros H. induction m as [|a t IH]; [reflexivity|]. cbn [existsb]. apply orb_false_iff. split.
  - apply Z.eqb_neq. apply H. now left.
  - apply IH. intros x Hx. apply H. now right.
Qed.
Lemma NoKey_rev k m : NoKey k m -> NoKey k (rev m).
Proof. intros H x Hx. apply H. now apply in_rev. Qed.
Lemma NoKey_sub k m m' : (forall x, In x m' -> In x m) -> NoKey k m -> NoKey k m'.
Proof. intros S H x Hx. apply H, S, Hx. Qed.
Lemma in_tl {A : Type} (l : list A) x : In x (tl l) -> In x l.
Proof. destruct l; [auto|]. intros H. now right. Qed.
Lemma in_removelast {A : Type} (l : list A) x : In x (removelast l) -> In x l.
Proof.
  induction l as [|a t IH]; [auto|]. cbn [removelast]. destruct t as [|b t']; [intros []|].
  intros [H|H]; [now left|right; apply IH, H].
Qed.

(* one step of the specification keeps a key absent unless it is pushed, and hands out no item with it *)
Lemma sstep_gone k m o m' x :
  NoKey k m -> pushes_key k o = false -> sstep m o = Some (m', x) -> NoKey k m' /\ mentions k x = false.
Proof.
  intros H P E. destruct o as [it|k'|k'| | | | | | |]; cbn [sstep] in E.
  - cbn [pushes_key] in P. destruct (live it) eqn:L; cbn [negb] in E.
    + cbn [andb] in P.
      assert (Hm : NoKey k (m ++ [it])).
      { intros y Hy. apply in_app_or in Hy as [Hy|[Hy|[]]]; [now apply H|]. subst y. unfold has_key in P. now apply Z.eqb_neq. }
      destruct (hd_error (rev m)) as [b|].
      * destruct (key b <? key it); [|discriminate]. inversion E; subst. now split.
      * inversion E; subst. now split.
    + inversion E; subst. now split.
  - inversion E; subst. split; [exact H|]. cbn [mentions]. now apply NoKey_found.
  - inversion E; subst. split.
    + eapply NoKey_sub; [|exact H]. intros y Hy. now apply filter_In in Hy as (Hy & _).
    + cbn [mentions]. now apply NoKey_found.
  - inversion E; subst. split; [eapply NoKey_sub; [apply in_tl|exact H]|]. cbn [mentions]. now apply NoKey_hd.
  - inversion E; subst. split; [eapply NoKey_sub; [apply in_removelast|exact H]|]. cbn [mentions]. now apply NoKey_hd, NoKey_rev.
  - inversion E; subst. split; [intros y []|reflexivity].
  - inversion E; subst. split; [exact H|]. cbn [mentions]. now apply NoKey_exists.
  - inversion E; subst. split; [exact H|]. cbn [mentions]. now apply NoKey_hd.
  - inversion E; subst. split; [exact H|]. cbn [mentions]. now apply NoKey_hd, NoKey_rev.
  - inversion E; subst. split; [exact H|]. reflexivity.
Qed.

(* whole histories of the specification *)
Lemma srun_gone k ops : forall m, NoKey k m -> forallb (fun o => negb (pushes_key k o)) ops = true ->
  forallb (fun x => negb (mentions k x)) (fst (run sstep m ops)) = true /\
  match snd (run sstep m ops) with Some m' => NoKey k m' | None => True end.
Proof.
  induction ops as [|o r IH]; intros m H P; cbn [run].
  - cbn. now split.
  - cbn [forallb] in P. apply andb_true_iff in P as (P1 & P2). apply negb_true_iff in P1.
    destruct (sstep m o) as [[m' x]|] eqn:E; [|cbn; now split].
    destruct (sstep_gone k m o m' x H P1 E) as (H' & M).
    specialize (IH m' H' P2). destruct (run sstep m' r) as [xs fin]. cbn [fst snd] in *.
    destruct IH as (I1 & I2). split; [|exact I2]. cbn [forallb]. rewrite M. exact I1.
Qed.

(* the three ways a key goes away in the specification *)
Lemma removed_gone k m : NoKey k (filter (fun it => negb (has_key k it)) m).
Proof.
  intros x Hx. apply filter_In in Hx as (_ & Hx). apply negb_true_iff in Hx. now apply Z.eqb_neq.
Qed.
Lemma popped_first_gone m a : MapInv m -> hd_error m = Some a -> NoKey (key a) (tl m).
Proof. intros Hm Ha x Hx. pose proof (spec_first_smallest m a x Hm Ha Hx). lia. Qed.
Lemma popped_last_gone m a : MapInv m -> hd_error (rev m) = Some a -> NoKey (key a) (removelast m).
Proof. intros Hm Ha x Hx. pose proof (spec_last_largest m a x Hm Ha Hx). lia. Qed.
Lemma cleared_gone k : NoKey k [].
Proof. intros x []. Qed.

(* the faithful model: a history split at any point.  If after the first part the live items do
   not hold key k (because it was removed, popped, cleared or never pushed), then as long as no
   later operation pushes a live item with key k, no later result -- find, remove, pop, first,
   last, iteration -- hands out an item with key k. *)
Theorem model_gone_stays_gone k ops1 ops2 l1 :
  snd (run step [] ops1) = Some l1 -> NoKey k (filter live l1) ->
  forallb (fun o => negb (pushes_key k o)) ops2 = true ->
  forallb (fun x => negb (mentions k x)) (fst (run step l1 ops2)) = true.
Proof.
  intros E H P.
  pose proof (run_refines ops1 [] Inv_nil) as (_ & R1). change (abs []) with (@nil item) in R1. rewrite E in R1.
  destruct (snd (run sstep [] ops1)) as [m1|]; [|contradiction]. destruct R1 as (A1 & S1 & C1).
  assert (I1 : Inv l1) by (split; assumption).
  pose proof (run_refines ops2 l1 I1) as (R2 & _). rewrite R2.
  apply (srun_gone k ops2 (abs l1)); assumption.
Qed.
