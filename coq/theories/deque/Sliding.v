(* C15: faithful model of sliding_deque/src/sliding_deque.rs over a list container.
   `check_rep` (debug_assert!) failures are an explicit Panic outcome.  No proofs here. *)
From Coq Require Import List Arith Bool NArith.
Import ListNotations.

Section SD.
Variable A : Type.
Record sd := { consumed : nat; cont : list A }.
Definition view (d : sd) : list A := skipn (consumed d) (cont d).
Definition is_empty (d : sd) : bool := match view d with [] => true | _ => false end.
Definition check_rep (d : sd) : bool :=
  (negb (is_empty d) || (consumed d =? 0)) && (consumed d <=? length (cont d) / 2).

Inductive res (T : Type) := Ok (d : sd) (r : T) | Panic.
Arguments Ok {T}. Arguments Panic {T}.

Definition slide (d : sd) : sd := {| consumed := 0; cont := skipn (consumed d) (cont d) |}.
Definition maybe_slide (d : sd) : sd :=
  if (length (cont d) / 2 <? consumed d) || is_empty d then slide d else d.
Definition clear (d : sd) : sd := {| consumed := 0; cont := [] |}.

Definition checked {T} (d : sd) (r : T) : res T := if check_rep d then Ok d r else Panic.

Definition push_back (x : A) (d : sd) : res unit :=
  if check_rep d then checked {| consumed := consumed d; cont := cont d ++ [x] |} tt else Panic.

Definition pop_front (d : sd) : res (option A) :=
  if check_rep d then
    match view d with
    | [] => Ok d None
    | x :: _ => checked (maybe_slide {| consumed := S (consumed d); cont := cont d |}) (Some x)
    end
  else Panic.

(* count is a usize: kept in N so that huge counts need no huge Peano numeral *)
Definition advance (n : N) (d : sd) : res nat :=
  if check_rep d then
    let avail := length (cont d) - consumed d in
    let k := N.to_nat (N.min (N.of_nat avail) n) in
    checked (maybe_slide {| consumed := consumed d + k; cont := cont d |}) k
  else Panic.

(* the code before commit a58fd0b: only the empty case was repaired after the pop (finding F2) *)
Definition pop_back_prefix (d : sd) : res (option A) :=
  if check_rep d then
    match rev (view d) with
    | [] => Ok d None
    | x :: _ => let d1 := {| consumed := consumed d; cont := removelast (cont d) |} in
                checked (if is_empty d1 then clear d1 else d1) (Some x)
    end
  else Panic.

(* current code: maybe_slide after the pop *)
Definition pop_back (d : sd) : res (option A) :=
  if check_rep d then
    match rev (view d) with
    | [] => Ok d None
    | x :: _ => checked (maybe_slide {| consumed := consumed d; cont := removelast (cont d) |}) (Some x)
    end
  else Panic.

Definition do_clear (d : sd) : res unit := checked (clear d) tt.
Definition do_slide (d : sd) : res unit := checked (slide d) tt.

(* front()/back() check the representation and read the view *)
Definition front (d : sd) : res (option A) := if check_rep d then Ok d (hd_error (view d)) else Panic.
Definition back (d : sd) : res (option A) := if check_rep d then Ok d (hd_error (rev (view d))) else Panic.

Fixpoint set_nth (i : nat) (x : A) (l : list A) : list A :=
  match l, i with
  | [], _ => []
  | _ :: t, O => x :: t
  | h :: t, S j => h :: set_nth j x t
  end.
(* write through DerefMut: view_mut().get_mut(i).map(|p| *p = x) *)
Definition write (i : nat) (x : A) (d : sd) : res bool :=
  if i <? length (view d)
  then Ok {| consumed := consumed d; cont := firstn (consumed d) (cont d) ++ set_nth i x (view d) |} true
  else Ok d false.

Definition empty : sd := {| consumed := 0; cont := [] |}.
Definition from_container (l : list A) : sd := {| consumed := 0; cont := l |}.

Inductive op := PushBack (x : A) | PopFront | PopBack | Advance (n : N) | Clear | Slide
              | Write (i : nat) (x : A) | Front | Back.
Inductive out := OUnit | OItem (o : option A) | ONat (n : nat) | OBool (b : bool).

Definition step (d : sd) (o : op) : res out :=
  match o with
  | PushBack x => match push_back x d with Ok d' _ => Ok d' OUnit | Panic => Panic end
  | PopFront => match pop_front d with Ok d' r => Ok d' (OItem r) | Panic => Panic end
  | PopBack => match pop_back d with Ok d' r => Ok d' (OItem r) | Panic => Panic end
  | Advance n => match advance n d with Ok d' r => Ok d' (ONat r) | Panic => Panic end
  | Clear => match do_clear d with Ok d' _ => Ok d' OUnit | Panic => Panic end
  | Slide => match do_slide d with Ok d' _ => Ok d' OUnit | Panic => Panic end
  | Write i x => match write i x d with Ok d' r => Ok d' (OBool r) | Panic => Panic end
  | Front => match front d with Ok d' r => Ok d' (OItem r) | Panic => Panic end
  | Back => match back d with Ok d' r => Ok d' (OItem r) | Panic => Panic end
  end.

(* run a history; None = some step panicked *)
Fixpoint run (d : sd) (ops : list op) : option (sd * list out) :=
  match ops with
  | [] => Some (d, [])
  | o :: r => match step d o with
              | Panic => None
              | Ok d' x => match run d' r with Some (d'', xs) => Some (d'', x :: xs) | None => None end
              end
  end.

(* ---- the specification: a plain list ---- *)
Definition lstep (l : list A) (o : op) : list A * out :=
  match o with
  | PushBack x => (l ++ [x], OUnit)
  | PopFront => (tl l, OItem (hd_error l))
  | PopBack => (removelast l, OItem (hd_error (rev l)))
  | Advance n => let k := N.to_nat (N.min (N.of_nat (length l)) n) in (skipn k l, ONat k)
  | Clear => ([], OUnit)
  | Slide => (l, OUnit)
  | Write i x => if i <? length l then (set_nth i x l, OBool true) else (l, OBool false)
  | Front => (l, OItem (hd_error l))
  | Back => (l, OItem (hd_error (rev l)))
  end.
Fixpoint lrun (l : list A) (ops : list op) : list A * list out :=
  match ops with
  | [] => (l, [])
  | o :: r => let '(l', x) := lstep l o in let '(l'', xs) := lrun l' r in (l'', x :: xs)
  end.
End SD.

Arguments Ok {A T}. Arguments Panic {A T}.
Arguments consumed {A}. Arguments cont {A}. Arguments view {A}. Arguments check_rep {A}.
Arguments step {A}. Arguments run {A}. Arguments lstep {A}. Arguments lrun {A}. Arguments empty {A}.
Arguments from_container {A}.
Arguments PushBack {A}. Arguments PopFront {A}. Arguments PopBack {A}. Arguments Advance {A}.
Arguments Clear {A}. Arguments Slide {A}. Arguments Write {A}. Arguments Front {A}. Arguments Back {A}.
Arguments OUnit {A}. Arguments OItem {A}. Arguments ONat {A}. Arguments OBool {A}.
