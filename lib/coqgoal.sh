#!/bin/bash
# usage: coqgoal.sh <file.v> <line>   -- shows the proof state after the given line
f=$1; n=$2
cd /verif/coq
(head -n $n $f; echo; echo "Show.") | timeout 120 coqtop -q -Q theories WP -Q gen WPGen 2>&1 | tail -${3:-40}
