"""Per-property pipeline (DESIGN.md sections 2 and 5)."""
import hashlib, importlib, json, os, re, sys, time, traceback

from core import *  # noqa: F401,F403
import core
import translate
import registry


def family_module(name):
    return importlib.import_module("fam_" + name)


def load_corpus(fam, pid):
    """corpus/<family>/*.case: one case per line, `#` comments; all of them run first."""
    out = []
    d = os.path.join(VERIF, "corpus", fam)
    for p in sorted(glob.glob(os.path.join(d, "*.case"))):
        for line in open(p):
            line = line.strip()
            if line and not line.startswith("#"):
                out.append(line)
    return out


def project(obs, idx):
    if idx is None:
        return obs
    return [obs[i] if i < len(obs) else None for i in idx]


def correspond(pid, fam, cases, workdir, profiles=("debug", "release")):
    """Run implementation (each profile) and Coq model on the cases.
    Returns (impl: {profile: [obs]}, model: [obs])."""
    os.makedirs(workdir, exist_ok=True)
    casefile = os.path.join(workdir, f"{fam.NAME}.cases")
    with open(casefile, "w") as f:
        for c in cases:
            f.write(c + "\n")
    impl = {}
    for prof in profiles:
        impl[prof] = harness_run(prof, fam.NAME, casefile, os.path.join(workdir, f"{fam.NAME}.{prof}.out"))
        if len(impl[prof]) != len(cases):
            raise RuntimeError(f"harness returned {len(impl[prof])} observations for {len(cases)} cases")
    if getattr(fam, "NO_MODEL", False):
        # implementation-side predicate only (stated as such in the family and in DESIGN.md)
        return impl, [[] for _ in cases]
    if hasattr(fam, "coq_term_with_obs"):
        terms = [fam.coq_term_with_obs(c, impl[profiles[0]][i]) for i, c in enumerate(cases)]
    else:
        terms = [fam.coq_term(c) for c in cases]
    model = coq_eval(fam.PREAMBLE, fam.RUNNER, terms, workdir, fam.NAME, shard=getattr(fam, "SHARD", 250))
    if hasattr(fam, "coq_term_with_obs") and getattr(fam, "PER_PROFILE_MODEL", False):
        # the model's inputs include values read off the run (wall clock, filesystem): one evaluation per profile
        model = PerProfile(model, {profiles[0]: model})
        for prof in profiles[1:]:
            terms = [fam.coq_term_with_obs(c, impl[prof][i]) for i, c in enumerate(cases)]
            model.by[prof] = coq_eval(fam.PREAMBLE, fam.RUNNER, terms, workdir, fam.NAME + "_" + prof, shard=getattr(fam, "SHARD", 250))
    return impl, model


class PerProfile(list):
    """A model result list (first profile's) that also carries one result list per profile."""

    def __init__(self, first, by):
        super().__init__(first)
        self.by = by

    def of(self, prof):
        return self.by.get(prof, self)


def diff_cases(pid, fam, cases, impl, model):
    """Indices (and details) of cases on which a binding observable differs."""
    out = []
    for i, c in enumerate(cases):
        idx = fam.binding(pid, c) if hasattr(fam, "binding") else None
        if hasattr(fam, "view_im"):
            view_i, view_m = (lambda o: fam.view_im(pid, c, o, False)), (lambda o: fam.view_im(pid, c, o, True))
        elif hasattr(fam, "view"):
            view_i = view_m = (lambda o: fam.view(pid, c, o))
        else:
            view_i = view_m = (lambda o: o)
        pm = view_m(project(model[i], idx))
        for prof, obs in impl.items():
            mod_i = model.of(prof)[i] if isinstance(model, PerProfile) else model[i]
            pm = view_m(project(mod_i, idx))
            pi = view_i(project(obs[i], idx))
            extra = fam.cross_checks(pid, c, obs[i], mod_i) if hasattr(fam, "cross_checks") else None
            if pi != pm or extra:
                out.append({"index": i, "case": c, "profile": prof, "impl": obs[i], "model": mod_i,
                            "binding_fields": idx, "predicate_failed": extra})
                break
    return out


def shrink(pid, fam, bad, workdir):
    """Greedy shrinking with the family's candidate generator; keeps the case failing."""
    if not hasattr(fam, "shrink_candidates"):
        return bad
    cur = bad
    budget = 40
    t_end = time.time() + 60          # shrinking is a convenience: never let it dominate a failing run
    while budget > 0 and time.time() < t_end:
        budget -= 1
        cands = fam.shrink_candidates(cur["case"])[:64]
        if len(cur["case"]) > 20000:
            cands = cands[:8]         # very large cases (production-size messages): a few candidates per round
        if not cands:
            break
        try:
            impl, model = correspond(pid, fam, cands, os.path.join(workdir, "shrink"), profiles=(cur["profile"],))
        except Exception:
            break
        d = diff_cases(pid, fam, cands, impl, model)
        if cur.get("predicate_failed"):
            d = [x for x in d if x.get("predicate_failed")]
        if not d:
            break
        d.sort(key=lambda x: len(x["case"]))
        if len(d[0]["case"]) >= len(cur["case"]):
            break
        cur = d[0]
    return cur


def run_property(pid, tier, seed, replay=None):
    t0 = time.time()
    P = registry.PROPS[pid]
    fams = [family_module(f) for f in P["families"]]
    workdir = os.path.join(CACHE, "run", pid)
    os.makedirs(workdir, exist_ok=True)
    os.makedirs(os.path.join(VERIF, "evidence"), exist_ok=True)
    replay_dir = os.path.join(VERIF, ".cache", "replay")
    os.makedirs(replay_dir, exist_ok=True)
    notes, proof = [], {"ok": True, "broken": []}

    # 1. translate the source into coq/gen
    try:
        with Lock("coq"):
            params, orderings, changed = translate.run(os.path.join(COQ, "gen"))
        if changed:
            notes.append("generated files changed: " + ",".join(changed))
    except translate.TranslateError as e:
        proof["ok"] = False
        proof["broken"].append({"kind": "translator", "theorem": "source-translation", "error": str(e)})

    # 2. prove: build the closure of props/<pid>.v and the run models of the families
    props_v = f"theories/props/{pid}.v"
    run_targets = [f"theories/run/{f.RUNFILE}.vo" for f in fams if hasattr(f, "RUNFILE")]
    closure = coq_closure(props_v)
    with Lock("coq"):
        ok, log = coq_make([props_v + "o"], timeout=2400)
        if not ok:
            err = coqc_error_summary(log)
            proof["ok"] = False
            proof["broken"].append({"kind": "theorem", "theorem": broken_theorem_name(err) or "?", **err})
        ok_run, log_run = coq_make(run_targets, timeout=2400)
    model_ok = ok_run
    if not ok_run:
        err = coqc_error_summary(log_run)
        proof["ok"] = False
        proof["broken"].append({"kind": "model", "theorem": broken_theorem_name(err) or "run-model", **err})

    # 3. gates
    hits = gates(closure + [f"theories/run/{f.RUNFILE}.v" for f in fams if hasattr(f, "RUNFILE")])
    if hits:
        proof["ok"] = False
        proof["broken"].append({"kind": "gate", "theorem": "forbidden-construct", "error": "; ".join(hits[:10])})
    closed, axioms, pa_out = 0, [], ""
    if proof["ok"]:
        okp, closed, axioms, pa_out = print_assumptions(pid)
        bad_ax = [a for a in axioms if a not in STD_AXIOMS_ALLOWED]
        if not okp or bad_ax:
            proof["ok"] = False
            proof["broken"].append({"kind": "assumptions", "theorem": "Print Assumptions",
                                    "error": "axioms outside the allowlist: " + ",".join(bad_ax) if bad_ax else pa_out[-800:]})
    n_obl, obl_names = count_obligations(closure)
    if proof["ok"] and tier == "thorough":
        okc, chk = coqchk(pid)
        notes.append("coqchk -o on props/%s.vo and its dependencies: %s" % (pid, json.dumps(chk)))
        if not okc:
            proof["ok"] = False
            proof["broken"].append({"kind": "coqchk", "theorem": "coqchk", "error": json.dumps(chk)})

    # 4. build the harness against the working tree
    okb, blog = cargo_build()
    if not okb:
        rp = os.path.join(replay_dir, f"{pid}.build.json")
        json.dump({"property": pid, "kind": "harness-build-failed", "log": blog[-4000:]}, open(rp, "w"), indent=1)
        write_evidence(pid, tier, seed, P, t0, proof, n_obl, 0, closed, axioms, [], {}, [], 1, notes + ["harness build failed"])
        print(f"VIOLATION property={pid} replay={rp} no-failing-input-found")
        return 1

    # 5. correspondence
    rng = Rng(seed ^ int(hashlib.sha256(pid.encode()).hexdigest()[:8], 16))
    violations, stats_all, samples, n_eval, nontriv = [], {}, [], 0, set()
    crashed = set()        # families whose harness process died: their failing case cannot be shrunk by re-running
    drift = []

    def run_stream(fam, cases, label):
        nonlocal n_eval
        if not cases:
            return []
        impl, model = correspond(pid, fam, cases, workdir)
        n_eval += len(cases)
        for i, c in enumerate(cases):
            if fam.nontrivial(c, impl["debug"][i]):
                nontriv.add(hashlib.sha1(c.encode()).hexdigest())
        st = fam.stats(cases, impl["debug"]) if hasattr(fam, "stats") else {}
        for k, v in st.items():
            stats_all[f"{fam.NAME}.{k}"] = stats_all.get(f"{fam.NAME}.{k}", 0) + v
        if len(samples) < 6:
            for i in range(min(2, len(cases))):
                j = (len(cases) // 2 + i) % len(cases)
                samples.append({"family": fam.NAME, "stream": label, "case": cases[j][:400],
                                "impl": trunc(impl["debug"][j]), "model": trunc(model[j])})
        if hasattr(fam, "advisory_diff"):
            for i, c in enumerate(cases):
                if fam.advisory_diff(c, impl["debug"][i], model[i]):
                    drift.append(c[:200])
        return diff_cases(pid, fam, cases, impl, model)

    if model_ok:
        for fam in fams:
            try:
                if replay:
                    rc = json.load(open(replay))
                    cases = [rc["case"]] if rc.get("family") == fam.NAME and rc.get("case") else []
                    d = run_stream(fam, cases, "replay")
                    for x in d:
                        print(json.dumps(x)[:3000])
                    violations += [(fam, x) for x in d]
                    continue
                corpus = load_corpus(fam.NAME, pid)
                d = run_stream(fam, corpus, "corpus")
                n = P["n"][tier].get(fam.NAME, 1000)
                cases = fam.generate(rng, n, tier, pid)
                d += run_stream(fam, cases, "generated")
                if not d and not proof["ok"] and tier == "quick":
                    # a proof obligation broke: search harder for a concrete failing input
                    # bounded: the quick tier must stay quick even when it has to look for a failing input
                    n2 = min(P["n"]["thorough"].get(fam.NAME, 5 * n), 4 * n)
                    notes.append(f"proof broken: directed/extended search with {n2} more {fam.NAME} cases")
                    extra = fam.directed(rng, proof, pid) if hasattr(fam, "directed") else []
                    extra += fam.generate(rng, n2, "thorough", pid)
                    d += run_stream(fam, extra, "search")
                violations += [(fam, x) for x in d]
            except core.HarnessCrash as e:
                # the implementation died on a concrete case (allocator abort, non-unwinding panic, signal): that case is
                # the replay
                traceback.print_exc()
                violations.append((fam, {"index": 0, "case": e.case, "profile": e.profile, "impl": [[-1, e.rc]], "model": [],
                                         "binding_fields": None,
                                         "predicate_failed": f"the harness process died (rc={e.rc}) while running this case: {e.msg.strip()[-200:]}"}))
                crashed.add(fam.NAME)
            except Exception as e:
                traceback.print_exc()
                proof["ok"] = False
                proof["broken"].append({"kind": "correspondence-run", "theorem": f"correspondence:{fam.NAME}", "error": str(e)[-1500:]})

    if not model_ok:
        # the run model does not build (the tie broke): families that state the whole property on traces can still look
        # for a concrete failing input on the implementation's own observations
        for fam in fams:
            if not getattr(fam, "PREDICATE_COMPLETE", False) or not hasattr(fam, "impl_only_check"):
                continue
            try:
                cases = load_corpus(fam.NAME, pid) + fam.generate(rng, P["n"][tier].get(fam.NAME, 1000), tier, pid)
                os.makedirs(workdir, exist_ok=True)
                casefile = os.path.join(workdir, f"{fam.NAME}.implonly.cases")
                with open(casefile, "w") as f:
                    f.write("\n".join(cases) + "\n")
                for prof in ("debug", "release"):
                    obs = harness_run(prof, fam.NAME, casefile, os.path.join(workdir, f"{fam.NAME}.implonly.{prof}.out"))
                    n_eval += len(cases)
                    for c, o in zip(cases, obs):
                        why = fam.impl_only_check(pid, c, o)
                        if why:
                            violations.append((fam, {"index": 0, "case": c, "profile": prof, "impl": o, "model": [],
                                                     "binding_fields": None, "predicate_failed": why}))
                    if violations:
                        break
                notes.append(f"run model did not build: {fam.NAME} predicate evaluated on the implementation's traces only")
            except Exception as e:
                traceback.print_exc()
                notes.append("implementation-only search failed: " + str(e)[-300:])

    # 6. verdict
    known, _fixed = load_known()
    rc = 0
    reported = 0
    if violations:
        # group: report the smallest failing case per family (after shrinking)
        byfam = {}
        for fam, v in violations:
            byfam.setdefault(fam.NAME, (fam, []))[1].append(v)
        for name, (fam, vs) in byfam.items():
            unknown = []
            for v in vs:
                k = [kf for kf in known if kf["property"] == pid and hasattr(fam, "known_class") and fam.known_class(kf["cls"], v["case"])]
                if k:
                    continue
                unknown.append(v)
            for kf in known:
                if kf["property"] == pid and hasattr(fam, "known_class") and any(fam.known_class(kf["cls"], v["case"]) for v in vs):
                    print(f"KNOWN-FINDING: property={pid} {kf['text']}")
            if not unknown:
                continue
            # families that compare the complete structural state (slice pointers, chunk numbers, caches): a case on which
            # only that structure differs -- same return values, sizes and bytes, no property clause failing on the
            # implementation's trace -- shows that the model no longer describes the code, not that the property fails
            def semantic_failure(v):
                if v.get("predicate_failed") or not hasattr(fam, "semantic"):
                    return True
                try:
                    return fam.semantic(v["case"], v["impl"], False) != fam.semantic(v["case"], v["model"], True)
                except Exception:
                    return True
            unknown.sort(key=lambda v: (0 if v.get("predicate_failed") else 1, 0 if semantic_failure(v) else 1, len(v["case"])))
            best = shrink(pid, fam, unknown[0], workdir) if model_ok and name not in crashed else unknown[0]
            if semantic_failure(unknown[0]) and not semantic_failure(best):
                best = unknown[0]          # shrinking must not turn a failing input into a merely structural difference
            structural_only = not semantic_failure(best)
            # a family whose cross_checks state the whole property on traces: a bare model/implementation
            # difference shows the tie is broken, not that the property fails on this input
            suffix = " no-failing-input-found" if (getattr(fam, "PREDICATE_COMPLETE", False) and not best.get("predicate_failed")) or structural_only else ""
            rp = os.path.join(replay_dir, f"{pid}.{name}.json")
            json.dump({"property": pid, "tier": tier, "seed": seed, "family": name, "case": best["case"],
                       "profile": best["profile"], "fields": fam.FIELDS, "binding_fields": best["binding_fields"],
                       "impl": trunc(best["impl"], 400), "model": trunc(best["model"], 400), "predicate_failed": best.get("predicate_failed"),
                       "explain": fam.explain(best) if hasattr(fam, "explain") else None,
                       "correspondence": f"family {name}: harness/src vs coq/theories/run/{getattr(fam, 'RUNFILE', '?')}.v",
                       "structural_difference_only": structural_only,
                       "failing_cases_in_run": len(unknown), "proof": proof}, open(rp, "w"), indent=1)
            print(f"VIOLATION property={pid} replay={rp}{suffix}")
            reported += 1
            rc = 1
    if not proof["ok"] and rc == 0:
        rp = os.path.join(replay_dir, f"{pid}.proof.json")
        json.dump({"property": pid, "tier": tier, "seed": seed, "kind": "proof-or-tie-broken",
                   "broken": proof["broken"], "searched_cases": n_eval,
                   "note": "no concrete failing input was found by the search; the property is no longer shown to hold"},
                  open(rp, "w"), indent=1)
        for b in proof["broken"]:
            print(f"# broken: {b['kind']} {b.get('theorem')}: {str(b.get('error'))[:300]}")
        print(f"VIOLATION property={pid} replay={rp} no-failing-input-found")
        rc = 1
    write_evidence(pid, tier, seed, P, t0, proof, n_obl, n_eval, closed, axioms, samples, stats_all, drift,
                   reported + (0 if proof["ok"] else 1), notes, nontriv=len(nontriv))
    if rc == 0:
        print(f"OK property={pid} tier={tier} seed={seed} theorems_in_closure={n_obl} cases={n_eval} wall={time.time()-t0:.1f}s")
    return rc


def trunc(o, n=40):
    if isinstance(o, list):
        if len(o) > n:
            return [trunc(x, n) for x in o[:n]] + [f"...({len(o)} items)"]
        return [trunc(x, n) for x in o]
    return o


def write_evidence(pid, tier, seed, P, t0, proof, n_obl, n_eval, closed, axioms, samples, stats, drift, nviol, notes, nontriv=0):
    ev = {
        "property_id": pid, "tier": tier, "seed": seed, "level": "proof",
        "coverage": {
            "obligations": n_obl,
            "discharged": n_obl if proof["ok"] else max(0, n_obl - len(proof["broken"])),
            "checker_cmd": f"make -C coq theories/props/{pid}.vo (coqc 8.16.1, full .vo build) + coqc theories/props/{pid}.v for Print Assumptions",
            "trusted_base": registry.TRUSTED_BASE + P.get("trusted_extra", []),
            "property_theorems_closed_under_global_context": closed,
            "axioms_reported": axioms,
            "evaluations": n_eval,
            "distinct_nontrivial": nontriv,
            "rule": P.get("rule", ""),
            "samples": samples if samples else [{"note": "no correspondence case ran"}],
            "input_distribution": stats,
            "model_drift_advisory": drift[:10],
            "proof_status": proof,
            "profiles": ["debug", "release"],
            "notes": notes,
        },
        "assumptions": P.get("assumptions", []),
        "wall_s": round(time.time() - t0, 2),
        "violations": nviol,
    }
    with open(os.path.join(VERIF, "evidence", f"{pid}.json"), "w") as f:
        json.dump(ev, f, indent=1)


def setup():
    t0 = time.time()
    with Lock("coq"):
        translate.run(os.path.join(COQ, "gen"))
        coq_project()
        rc, out = sh(["make", "-j%d" % NPROC], 3400, cwd=COQ)
    if rc != 0:
        print(out[-4000:])
        print("setup: Coq build FAILED")
        return 1
    ok, log = cargo_build()
    if not ok:
        print(log[-4000:])
        print("setup: harness build FAILED")
        return 1
    print(f"setup ok in {time.time()-t0:.0f}s")
    return 0
