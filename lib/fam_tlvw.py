"""Family `tlvw` (C11): MessageWrapper construction, encoding into three sinks, and reading back."""
from core import gbytes, glist, hexs

NAME = "tlvw"
RUNFILE = "RunTlvw"
PREAMBLE = ("From Coq Require Import NArith ZArith List. Import ListNotations. Open Scope N_scope.\n"
            "From WP Require Import tlv.View tlv.Wrapper run.RunTlvw.")
RUNNER = "run_tlvw"
FIELDS = ["ctor code (0 ok, 1 non-monotonic tags, 2 too many, 3 value too large, 4 total too large, 99 panic)",
          "rough_tlv_len", "emitted bytes (as read back from the sink)", "view code", "iter (tag, vlen, bytes)*"]
SHARD = 500
I32MAX = 2**31 - 1


def split_top(s, sep):
    out, depth, start = [], 0, 0
    for i, c in enumerate(s):
        if c == "[":
            depth += 1
        elif c == "]":
            depth -= 1
        elif c == sep and depth == 0:
            out.append(s[start:i])
            start = i + 1
    if start < len(s):
        out.append(s[start:])
    return out


def parse_value(v):
    k, body = v[0], v[1:]
    if k in "hBHsS":
        return ("b", list(bytes.fromhex(body)) if body != "-" else [])
    if k == "L":
        return ("l", int(body))
    if k == "[":
        return ("n", [parse_entry(e) for e in split_top(v[1:-1], ",")])
    raise ValueError(v)


def parse_entry(e):
    t, v = e.split("=", 1)
    return int(t), parse_value(v)


def parse(line):
    t = line.split()
    return t[0], t[1], [parse_entry(e) for e in t[2:]]


def coq_value(v):
    if v[0] == "b":
        return f"HB {gbytes(v[1])}"
    if v[0] == "l":
        return f"HL {v[1]}"
    return "HN " + glist([f"({t}, {coq_value(x)})" for t, x in v[1]])


def coq_term(line):
    ctor, sink, es = parse(line)
    c = {"new": "New", "slice": "NewFromSlice", "sorted": "NewFromSorted"}[ctor]
    return f"({c}, " + glist([f"({t}, {coq_value(v)})" for t, v in es]) + ")"


def view(pid, case, obs):
    return obs


def nontrivial(case, obs):
    # non-trivial: accepted, at least two pairs
    return bool(obs) and obs[0] == [0] and len(parse(case)[2]) >= 2


def stats(cases, obs):
    st = {}
    for c, o in zip(cases, obs):
        ctor, sink, es = parse(c)
        k = "code_%d" % (o[0][0] if o and o[0] else -1)
        st[k] = st.get(k, 0) + 1
        st["sink_" + sink] = st.get("sink_" + sink, 0) + 1
        st["ctor_" + ctor] = st.get("ctor_" + ctor, 0) + 1
        if any(v[0] == "n" for _, v in es):
            st["nested"] = st.get("nested", 0) + 1
        if any(v[0] == "l" for _, v in es):
            st["size_only"] = st.get("size_only", 0) + 1
        if len(set(t for t, _ in es)) < len(es):
            st["repeated_tags"] = st.get("repeated_tags", 0) + 1
    return st


def rand_value(rng, depth):
    k = rng.weighted([(4, "h"), (2, "B"), (2, "H"), (1, "s"), (1, "S"), (2 if depth < 3 else 0, "[")])
    if k == "[":
        n = rng.below(4)
        return "[" + ",".join(rand_entry(rng, depth + 1) for _ in range(n)) + "]"
    ln = rng.weighted([(3, 0), (3, 1), (3, 2), (2, 3), (2, 5), (1, 17), (1, 70), (1, 300)])
    if k in "sS":
        b = [rng.range(32, 126) for _ in range(ln)]
    else:
        b = [rng.below(256) if rng.chance(3, 4) else rng.choice([0xFE, 0xFD]) for _ in range(ln)]
    return k + hexs(b)


def rand_entry(rng, depth):
    tag = rng.weighted([(6, rng.below(6)), (2, rng.below(1 << 32)), (1, (1 << 32) - 1), (1, rng.choice([255, 256, 65535, 65536, 1 << 24]))])
    return f"{tag}={rand_value(rng, depth)}"


def generate(rng, n, tier, pid):
    out = []
    # size limits (construction only): boundary lattice around i32::MAX
    hdr = lambda k: 4 + 4 * max(0, k - 1) + 4 * k
    for ctor in ("new", "slice", "sorted"):
        out.append(f"{ctor} rec")
        for k in (1, 2, 3):
            room = I32MAX - hdr(k)
            for d in (-1, 0, 1):
                lens = [room + d - (k - 1)] + [1] * (k - 1)
                out.append(f"{ctor} rec " + " ".join(f"{i + 1}=L{l}" for i, l in enumerate(lens)))
                lens = [1] * (k - 1) + [room + d - (k - 1)]
                out.append(f"{ctor} rec " + " ".join(f"{i + 1}=L{l}" for i, l in enumerate(lens)))
        for big in (I32MAX, I32MAX + 1, 1 << 32, (1 << 63), (1 << 64) - 1):
            out.append(f"{ctor} rec 1=h00 2=L{big}")
            out.append(f"{ctor} rec 1=L{big} 2=L{big}")
            out.append(f"{ctor} rec 5=L{big} 2=h00")
        out.append(f"{ctor} rec 1=L{1 << 30} 2=L{1 << 30}")
        out.append(f"{ctor} rec 1=L{(1 << 30) - 10} 2=L{1 << 30}")
        out.append(f"{ctor} rec 1=L{(1 << 63)} 2=L{(1 << 63)}")
    # long lists with few distinct tags and distinguishable values: stability of the sort beyond the
    # sizes at which sorting routines switch algorithm (insertion sort below ~20-32 elements)
    nlong = max(12, n // 40)
    for i in range(nlong):
        k = [21, 33, 48, 64, 100, 257, 70, 129][i % 8] + rng.below(5)
        ntags = 2 + rng.below(4)
        es = [f"{rng.below(ntags)}=h{j % 256:02x}{(j // 256) % 256:02x}" for j in range(k)]
        ctor = ["new", "slice", "sorted"][i % 3]
        if ctor == "sorted" and i % 2 == 0:
            es.sort(key=lambda e: int(e.split("=")[0]))
        out.append(f"{ctor} {['rec', 'iov', 'hcobs'][(i // 3) % 3]} " + " ".join(es))
    while len(out) < n:
        ctor = rng.weighted([(4, "new"), (3, "slice"), (3, "sorted")])
        sink = rng.weighted([(3, "rec"), (4, "iov"), (3, "hcobs")])
        k = rng.weighted([(1, 0), (3, 1), (4, 2), (4, 3), (3, 4), (2, 6), (1, 12)])
        es = [rand_entry(rng, 0) for _ in range(k)]
        if ctor == "sorted" and rng.chance(3, 4):
            es.sort(key=lambda e: int(e.split("=")[0]))
        if rng.chance(1, 30):
            es[rng.below(len(es)):] = [f"{rng.below(6)}=L{rng.choice([I32MAX, I32MAX + 1, 1 << 31, rng.below(1 << 33)])}"] if es else []
        out.append(f"{ctor} {sink} " + " ".join(es))
    return out


def shrink_candidates(line):
    t = line.split()
    return [" ".join(t[:i] + t[i + 1:]) for i in range(2, len(t))]


def explain(bad):
    return {"spec": "emitted bytes = layout (stable sort by tag of the pairs) = count, N-1 cumulative end offsets, N tags ascending (ties in insertion order), values; length = rough_tlv_len; MessageView accepts and iterates the same pairs; rejected iff count, a value length or the total exceeds i32::MAX (new_from_sorted: or tags decrease)"}
