"""Family `seq` (C13, C18): schedules of AtomicBaseTime calls and atomic steps over 4 threads.

Case: `;`-separated ops `c <tid> <kind> <t>` (kind 0 snapshot, 1 update, 2 try_update) and
`s <tid> <choice>` (perform the thread's pending atomic / lock operation; a load reads the message
`len-1 - choice mod (len - view)` of its location).  The implementation runs on real threads under
the harness scheduler (hook verif_sync); the model is RunSeq.run_seq.  Observations: RunSeq.v."""

NAME = "seq"
RUNFILE = "RunSeq"
PREAMBLE = ("From Coq Require Import ZArith NArith List. Import ListNotations. Open Scope N_scope.\n"
            "From WP Require Import run.RunSeq.")
RUNNER = "run_seq"
FIELDS = ["one field per op: call [0,tid,kind,t,view(seq)] / load [1,loc,ord,idx,val] / store [2,loc,ord,idx,val] / "
          "lock [3,granted] / try_lock [4,granted] / unlock [5], followed by the call's result when it returns "
          "([10,t,v] snapshot, [11] update, [12,b] try_update, [13] panic); last field: [lock holder, history lengths]"]
SHARD = 150
PREDICATE_COMPLETE = True   # cross_checks states the property on traces: a bare model/impl mismatch is not a failing input
K = 1000003


def parse(line):
    ops = []
    for o in line.split(";"):
        t = o.split()
        if not t:
            continue
        if t[0] == "c":
            ops.append(("c", int(t[1]), int(t[2]), int(t[3])))
        else:
            ops.append(("s", int(t[1]), int(t[2])))
    return ops


def fmt(ops):
    return "; ".join(("c %d %d %d" % o[1:]) if o[0] == "c" else ("s %d %d" % o[1:]) for o in ops)


def coq_term(line):
    out = []
    for o in parse(line):
        if o[0] == "c":
            out.append(f"OCall {o[1]}%nat {o[2]} {o[3]}")
        else:
            out.append(f"OStep {o[1]}%nat {o[2]}")
    return "[" + "; ".join(out) + "]"


def view(pid, case, obs):
    return obs


HEAD = {1: 5, 2: 5, 3: 2, 4: 2, 5: 1}


def analyse(pid, case, obs):
    """The property, stated on a trace (either side).  Returns a list of failure descriptions."""
    ops = parse(case)
    allf = []

    class _F:
        """collects (owner, text); owner is the property the failing clause belongs to"""
        def append(self, text, owner="C13"):
            allf.append((owner, text))
    fails = _F()
    acc = [(0, K)]
    holder = None
    cur = {}          # tid -> dict for the call in progress
    last_t = {}       # tid -> last base time returned by a snapshot of that thread
    known = {}        # tid -> update index the thread is known to have seen (own publish / lock transfer)
    lock_known = 0
    if len(obs) != len(ops) + 1:
        return ["observation count %d for %d ops" % (len(obs), len(ops))]
    for n, (op, o) in enumerate(zip(ops, obs)):
        tid = op[1]
        if op[0] == "c":
            if len(o) >= 3 and o[2] == -1:
                continue
            cur[tid] = {"kind": op[2], "t": op[3], "view": o[4] if len(o) > 4 else 0, "known": known.get(tid, 0),
                        "seqs": [], "steps": 0, "stores": 0, "stale": None, "op": n}
            rest = o[5:]
        else:
            if not o or o[0] < 0:
                continue
            c = cur.get(tid)
            if c is None:
                continue
            kind = c["kind"]
            if o[0] == 3 and o[1] == 0:
                if kind == 0:
                    fails.append("op %d: snapshot waits for the writer lock" % n, "C18")
                if kind == 2:
                    fails.append("op %d: try_update waits for the writer lock" % n, "C18")
                continue
            c["steps"] += 1
            hl = HEAD.get(o[0], len(o))
            rest = o[hl:]
            if o[0] in (3, 4, 5) and kind == 0:
                fails.append("op %d: snapshot performed a lock operation" % n, "C18")
            if o[0] == 1:
                if o[1] == 0:
                    c["seqs"].append(o[4])
            elif o[0] == 2:
                c["stores"] += 1
                if c["stale"]:
                    fails.append("op %d: update with base time %d older than current %d stored to shared state" % (n, c["t"], c["stale"]))
                if kind == 0:
                    fails.append("op %d: snapshot stored to shared state" % n)
                if o[1] == 0:
                    acc.append((c["t"], c["t"] + K))
                    if o[4] != len(acc) - 1:
                        fails.append("op %d: published sequence %d but %d updates accepted" % (n, o[4], len(acc) - 1))
                    known[tid] = max(known.get(tid, 0), len(acc) - 1)
            elif o[0] in (3, 4):
                if o[1] == 1:
                    if holder is not None:
                        fails.append("op %d: lock granted while held" % n)
                    holder = tid
                    known[tid] = max(known.get(tid, 0), lock_known)
                    if c["t"] < acc[-1][0]:
                        c["stale"] = acc[-1][0]
                elif o[0] == 4:
                    if holder is None:
                        fails.append("op %d: try_lock refused on a free lock" % n, "C18")
                    if rest[:2] != [12, 0]:
                        fails.append("op %d: try_update did not return false at once on a held lock" % n, "C18")
            elif o[0] == 5:
                if holder == tid:
                    holder = None
                    lock_known = max(lock_known, known.get(tid, 0))
        if rest:
            c = cur.pop(tid, None)
            if c is None:
                continue
            if rest[0] == 13:
                fails.append("op %d: %s panicked" % (n, ["snapshot", "update", "try_update"][c["kind"]]))
            elif rest[0] == 10:
                t, v = rest[1], rest[2]
                s = c["seqs"][-1] if c["seqs"] else None
                if s is None or s >= len(acc) or acc[s] != (t, v):
                    fails.append("op %d: snapshot returned (%d,%d) which is not accepted pair #%s" % (n, t, v, s))
                else:
                    if s < c["view"] or s < c["known"]:
                        fails.append("op %d: snapshot returned update #%d, older than update #%d completed before it began" % (n, s, max(c["view"], c["known"])))
                if t < last_t.get(tid, 0):
                    fails.append("op %d: thread %d observed base time %d after %d" % (n, tid, t, last_t[tid]))
                last_t[tid] = max(t, last_t.get(tid, 0))
                # retries only on a newer, published sequence number
                sq = c["seqs"]
                for i in range(1, len(sq)):
                    if sq[i] != sq[i - 1] and sq[i] < sq[i - 1]:
                        fails.append("op %d: snapshot retried on an older sequence number" % n, "C18")
                if c["steps"] > 1 + 3 * max(1, len(sq) - 1):
                    fails.append("op %d: snapshot took %d steps for %d passes" % (n, c["steps"], len(sq) - 1), "C18")
            elif rest[0] == 12:
                if c["stale"] and rest[1] != 0:
                    fails.append("op %d: try_update with a stale base time reported success" % n)
    return [t for o, t in allf if o == pid]


def solo_bound_check(case, obs):
    """C18: a snapshot called last and then run alone (no other thread steps) completes within
    1 + 3 * (number of sequence messages) of its own steps."""
    ops = parse(case)
    fails = []
    nseq = obs[-1][1] if obs and len(obs[-1]) > 1 else 1
    for n, op in enumerate(ops):
        if op[0] == "c" and op[2] == 0 and all(o[0] == "s" and o[1] == op[1] for o in ops[n + 1:]):
            tail = obs[n + 1:len(ops)]
            if len(tail) >= 1 + 3 * nseq and not any(o and o[0] == 1 and len(o) > 5 and o[5] == 10 for o in tail):
                fails.append("op %d: snapshot run alone for %d steps did not complete" % (n, len(tail)))
    return fails


def cross_checks(pid, case, impl, model):
    f = analyse(pid, case, impl)
    if pid == "C18":
        f += solo_bound_check(case, impl)
    if f:
        return "implementation: " + "; ".join(f[:3])
    f = analyse(pid, case, model)
    if f:
        return "model: " + "; ".join(f[:3])
    return None


def impl_only_check(pid, case, impl):
    """The property's clauses on the implementation's trace alone (used when the run model does not build)."""
    f = analyse(pid, case, impl)
    if pid == "C18":
        f += solo_bound_check(case, impl)
    return ("implementation: " + "; ".join(f[:3])) if f else None


def advisory_diff(case, impl, model):
    return False


def nontrivial(case, obs):
    ops = parse(case)
    return len({o[1] for o in ops}) >= 2 and any(len(o) > 5 and o[0] == 1 and o[5] == 10 for o in obs if o)


def stats(cases, obs):
    st = {"snapshots_completed": 0, "snapshot_retries": 0, "updates_accepted": 0, "stale_reads": 0, "try_refused_on_held_lock": 0,
          "stale_updates_refused": 0, "blocked_lock_steps": 0, "ops": 0}
    for c, ob in zip(cases, obs):
        ops = parse(c)
        if len(ob) != len(ops) + 1:
            continue
        st["ops"] += len(ops)
        lens = {}
        kind, seqloads, stores = {}, {}, {}
        for op, o in zip(ops, ob):
            if not o:
                continue
            tid = op[1]
            if op[0] == "c":
                if len(o) > 3:
                    kind[tid], seqloads[tid], stores[tid] = o[2], 0, 0
                continue
            if o[0] == 1:
                if o[3] < lens.get(o[1], 1) - 1:
                    st["stale_reads"] += 1
                if o[1] == 0:
                    seqloads[tid] = seqloads.get(tid, 0) + 1
                if len(o) > 5 and o[5] == 10:
                    st["snapshots_completed"] += 1
                    st["snapshot_retries"] += max(0, seqloads.get(tid, 2) - 2)
            if o[0] == 2:
                lens[o[1]] = o[3] + 1
                stores[tid] = stores.get(tid, 0) + 1
                if o[1] == 0:
                    st["updates_accepted"] += 1
            if o[0] == 4 and o[1] == 0:
                st["try_refused_on_held_lock"] += 1
            if o[0] == 3 and o[1] == 0:
                st["blocked_lock_steps"] += 1
            if o[0] == 5 and stores.get(tid, 0) == 0:
                st["stale_updates_refused"] += 1
    return st


# ---------------------------------------------------------------- generation
def writer_prefix(tid, kind, t, k, choice=0):
    """call + k steps of a writer (k = 0 parked before the lock operation ... 8 finished)."""
    return [("c", tid, kind, t)] + [("s", tid, choice)] * k


def directed_cases():
    out = []
    # every suspension point of one writer (not started, parked before lock, after each of its 8 operations),
    # optionally after an earlier complete update and with a second writer parked on the lock;
    # then a reader / try_update run alone
    for k in range(0, 9):
        for pre in (0, 1, 2):
            for second in (False, True):
                for solo in ("snap_new", "snap_old", "snap_mix", "try", "upd"):
                    ops = []
                    for i in range(pre):
                        ops += writer_prefix(3, 1, 5 + 5 * i, 8)
                    ops += writer_prefix(0, 1 if k % 2 else 2, 50, k)
                    if second:
                        ops += [("c", 2, 1, 60), ("s", 2, 0)]
                    if solo.startswith("snap"):
                        ch = {"snap_new": [0] * 20, "snap_old": [7] * 20, "snap_mix": [3, 0, 1, 2, 0, 5, 1, 0] * 3}[solo]
                        ops += [("c", 1, 0, 0)] + [("s", 1, c) for c in ch[:18]]
                    elif solo == "try":
                        ops += [("c", 1, 2, 70)] + [("s", 1, 0)] * 9
                    else:
                        ops += [("c", 1, 1, 70)] + [("s", 1, 0)] * 3
                    out.append(fmt(ops))
    # reader lapped by a writer: the reader starts, two updates complete, the reader goes on reading old messages
    for first in range(0, 4):
        for ch in ([5, 5, 5], [1, 0, 0], [0, 1, 0], [0, 0, 1], [2, 2, 0], [1, 1, 1]):
            ops = [("c", 1, 0, 0)] + [("s", 1, 0)] * first
            ops += writer_prefix(0, 1, 10, 8) + writer_prefix(0, 1, 20, 8) + writer_prefix(0, 2, 30, 8)
            ops += [("s", 1, c) for c in ch] + [("s", 1, 9)] * 3 + [("s", 1, 0)] * 12
            out.append(fmt(ops))
    # racing writers: A has taken k steps of update(tA) when B starts (and, if it can, completes) update/try_update(tB);
    # then both run to completion and a third thread reads.  Whatever A did before it queued on the lock, an update that
    # is stale by the time it holds the lock must store nothing.
    for k in range(0, 10):
        for (ta, tb) in ((10, 20), (20, 10), (10, 10), (10, 11)):
            for kindb in (1, 2):
                ops = [("c", 0, 1, ta)] + [("s", 0, 0)] * k + [("c", 2, kindb, tb)] + [("s", 2, 0)] * 10
                ops += [("s", 0, 0)] * 10 + [("s", 2, 0)] * 10 + [("c", 1, 0, 0)] + [("s", 1, 0)] * 6
                out.append(fmt(ops))
    # stale update; equal base time; update after try
    for t2 in (3, 10, 11):
        for kind in (1, 2):
            ops = writer_prefix(0, 1, 10, 8) + writer_prefix(1, kind, t2, 8) + [("c", 2, 0, 0)] + [("s", 2, 0)] * 4
            ops += [("c", 1, 0, 0)] + [("s", 1, 3)] * 8
            out.append(fmt(ops))
    return out


def random_case(rng):
    nthreads = 2 + rng.below(3)
    n = 10 + rng.below(70 if rng.below(4) else 160)
    est = [0] * nthreads          # estimated remaining steps of the call in progress
    lock_guess = None
    ops = []
    tmax = 0
    stale_p = rng.below(4)        # how adversarial the read choices are
    for _ in range(n):
        idle = [i for i in range(nthreads) if est[i] <= 0]
        busy = [i for i in range(nthreads) if est[i] > 0]
        if idle and (not busy or rng.below(3) == 0):
            tid = idle[rng.below(len(idle))]
            r = rng.below(10)
            if r < 5:
                ops.append(("c", tid, 0, 0)); est[tid] = 4 + (3 if rng.below(3) == 0 else 0)
            else:
                kind = 1 if r < 7 else 2
                d = rng.below(10)
                t = tmax + 1 + rng.below(20) if d < 6 else (tmax if d < 8 else rng.below(tmax + 1))
                tmax = max(tmax, t)
                ops.append(("c", tid, kind, t)); est[tid] = 8
        elif busy:
            tid = busy[rng.below(len(busy))]
            c = 0 if rng.below(4) >= stale_p else rng.below(6)
            ops.append(("s", tid, c)); est[tid] -= 1
            # run a few more steps of the same thread now and then (long solo stretches)
            if rng.below(4) == 0:
                for _ in range(rng.below(6)):
                    ops.append(("s", tid, 0 if rng.below(4) >= stale_p else rng.below(6))); est[tid] -= 1
    # drain: every thread steps until it is done (blocked writers get their turn after the holder)
    for rnd in range(3):
        for tid in range(nthreads):
            ops += [("s", tid, 0)] * 10
    return fmt(ops)


def generate(rng, n, tier, pid):
    out = directed_cases()
    seen = set(out)
    while len(out) < n:
        c = random_case(rng)
        if c not in seen:
            seen.add(c)
            out.append(c)
    return out[:max(n, len(directed_cases()))]


def directed(rng, proof, pid):
    return []


def shrink_candidates(line):
    ops = parse(line)
    out = []
    n = len(ops)
    for size in (n // 2, n // 4, 8, 4, 2, 1):
        if size < 1:
            continue
        for i in range(0, n, size):
            cand = ops[:i] + ops[i + size:]
            if cand:
                out.append(fmt(cand))
        if len(out) > 64:
            break
    # also try replacing choices by 0
    for i, o in enumerate(ops):
        if o[0] == "s" and o[2] != 0:
            out.append(fmt(ops[:i] + [("s", o[1], 0)] + ops[i + 1:]))
    out.sort(key=len)
    return out


def explain(bad):
    return ("schedule replay: run `wp_harness seq <file with the case line>` (implementation under the harness "
            "scheduler) and RunSeq.run_seq on the same ops; predicate_failed names the clause that fails on the trace")
