"""Family `geo` (C03 C04 C05 C10 C20): the world of OwningIovecs of fam_iovw, compared against the
geometry-faithful model iovec/Geo.v.  Nothing is taken from the implementation's observation: the model
predicts, after every operation and for every object, the slice lengths and pointers (chunk creation
number, offset), the anchors (count, chunk), the allocation cache (chunk, capacity, bump offset), the
pending backrefs (logical end, slice index, begin, length), the buffered bytes, every return value, and
the process-wide live chunk / live byte counters."""
from core import gbytes_smart as gbytes, glist, hexs
import fam_iovw
from fam_iovw import parse, hexb, NOBJ, hash_bytes

NAME = "geo"
RUNFILE = "RunGeo"
PREAMBLE = ("From Coq Require Import NArith ZArith List. Import ListNotations. Open Scope N_scope.\n"
            "From WP Require Import iovec.Geo run.RunGeo run.Hex.")
RUNNER = "run_geo"
FIELDS = fam_iovw.FIELDS
SHARD = 100
BLOCK = 1 + 7 * NOBJ + 1


def coq_term(line):
    terms = []
    for i, p in parse(line):
        k = p[0]
        if k == "new":
            t = "GNew"
        elif k == "dr":
            t = "GDrop"
        elif k == "cn":
            t = f"GClone {p[1]}%nat"
        elif k == "tk":
            t = f"GTake {p[1]}%nat"
        elif k == "pu":
            t = f"GPush {gbytes(hexb(p[1]))}"
        elif k == "pc":
            t = f"GPushCopy {gbytes(hexb(p[1]))}"
        elif k == "pb":
            t = f"GPushBorrowed {gbytes(hexb(p[1]))}"
        elif k == "an":
            t = f"GAnchored {gbytes(hexb(p[1]))} {p[2] if len(p) > 2 else len(hexb(p[1]))}"
        elif k == "ex":
            t = "GExtend " + glist([gbytes(hexb(h)) for h in p[1].split(",")])
        elif k == "rp":
            t = f"GRegister {gbytes(hexb(p[1]))}"
        elif k == "bf":
            t = f"GBackfill {p[1]}%nat {gbytes(hexb(p[2]))}"
        elif k == "cs":
            t = f"GConsume {p[1]}"
        elif k == "ab":
            t = f"GAdvance {p[1]}"
        elif k == "pf":
            t = "GPop"
        elif k == "rd":
            t = f"GRead {p[1]}"
        elif k == "cl":
            t = "GClear"
        elif k == "fl":
            t = "GFlush"
        elif k == "ec":
            t = f"GEnsure {p[1]}"
        elif k == "ta":
            t = "GTakeArena"
        elif k == "sa":
            t = "GSwapArena"
        else:
            raise ValueError("bad op " + k)
        terms.append(f"({i}%nat, ({t}))")
    return glist(terms)


def blocks(obs):
    out, k = [], 0
    while k < len(obs):
        if obs[k] == [99] or len(obs) - k < BLOCK:
            out.append({"ret": [99]})
            break
        b = obs[k:k + BLOCK]
        k += BLOCK
        out.append({"ret": b[0], "objs": [b[1 + 7 * j: 8 + 7 * j] for j in range(NOBJ)], "glob": b[-1]})
    return out


def canon(case, obs, is_model):
    """The complete observable state after every operation, in one shape for both sides."""
    out = []
    for b in blocks(obs):
        if "objs" not in b:
            out.append([99])
            break
        objs = []
        for f in b["objs"]:
            if not f[0]:
                objs.append(None)
                continue
            dig = f[2] if is_model else hash_bytes(f[2])
            objs.append([f[0], f[1], dig, f[3], f[4], f[5], f[6]])
        out.append([b["ret"], objs, b["glob"][:2]])
    return out


WHAT = {"C03": (0, 1, 2), "C04": (0, 6), "C05": (1, 3, 4, 5), "C10": (3, 5), "C20": (0, 1, 2, 4)}


def view_im(pid, case, obs, is_model):
    # every property compares the whole state: a structural difference anywhere means the model no longer
    # describes the code, and each property's theorems are about that model
    return canon(case, obs, is_model)


def cross_checks(pid, case, impl_obs, model_obs):
    bi = blocks(impl_obs)
    ops = parse(case)
    for n, x in enumerate(bi):
        if "objs" not in x:
            break
        if pid in ("C05", "C03", "C20") and x["glob"][2] != 1:
            return f"op {n}: a slice points outside live memory"
        if pid == "C05":
            for j, f in enumerate(x["objs"]):
                if f[0] and (-1 in f[3][1::2] or (f[5] and f[5][0] == -1)):
                    return f"op {n}: an anchor or the cache of object {j} refers to a chunk that is not live"
        if pid == "C10":
            held = set()
            for f in x["objs"]:
                if f[0]:
                    held |= {c for c in f[3][1::2] if c > 0}
                    if f[5]:
                        held.add(f[5][0])
            if x["glob"][0] != len(held):
                return f"op {n}: {x['glob'][0]} chunks are live but {len(held)} are held by an anchor or a cache"
    if pid == "C10" and bi and "objs" in bi[-1]:
        if all(not f[0] for f in bi[-1]["objs"]) and bi[-1]["glob"][:2] != [0, 0]:
            return "every object is dropped but chunks are still live"
    return None


def nontrivial(case, obs):
    # at least two chunks were created and some push merged into the previous slice
    bl = blocks(obs)
    chunks = set()
    merged = False
    prev = None
    for b in bl:
        if "objs" not in b:
            continue
        for f in b["objs"]:
            if f[0]:
                chunks |= {c for c in f[4][0::2] if c > 0}
    return len(chunks) >= 2


def stats(cases, obs):
    st = {"ops": 0, "panics": 0, "chunks_created": 0, "big_chunks": 0, "arena_slices": 0, "caller_slices": 0, "multi_anchor_states": 0}
    for c, o in zip(cases, obs):
        st["ops"] += len(c.split())
        bl = blocks(o)
        if bl and "objs" not in bl[-1]:
            st["panics"] += 1
        mx = 0
        for b in bl:
            if "objs" not in b:
                continue
            for f in b["objs"]:
                if f[0]:
                    mx = max([mx] + f[4][0::2] + f[3][1::2] + (f[5][:1] if f[5] else []))
                    if f[5] and f[5][1] > 4096:
                        st["big_chunks"] += 1
                    if len(f[3]) >= 4:
                        st["multi_anchor_states"] += 1
        st["chunks_created"] += mx
        if bl and "objs" in bl[-1]:
            pass
    return st


def generate(rng, n, tier, pid):
    out = []
    # directed: chunk roll-over at every alignment around the first 4 KiB chunk, with pushes of every policy class
    k = 0
    for fill in range(4000, 4100, 7 if tier == "quick" else 1):
        for ln in (1, 64, 65, 200, 256, 257):
            k += 1
            if tier == "quick" and k % 3:
                continue
            a, b = [(k + j) % 256 for j in range(fill)], [(k + 7 * j) % 256 for j in range(ln)]
            op = ["pu", "pc", "an", "rp"][k % 4]
            out.append(f"@0:new @0:pc:{hexs(a)} @0:{op}:{hexs(b if op != 'rp' else [0] * min(ln, 70))} @0:pu:{hexs(b)} @0:cn:1 @0:ab:{fill} @0:rd:100000 @0:dr @1:rd:100000")
    # growth of the chunk size sequence
    for j in range(3 if tier == "quick" else 12):
        toks = ["@0:new"]
        for q in range(6 + j):
            toks.append(f"@0:pc:{hexs([(q + i) % 256 for i in range(3000 + 500 * (j % 3))])}")
            toks.append(f"@0:ec:{[1, 5000, 9000, 70000][(q + j) % 4]}")
            toks.append("@0:cs:1")
        out.append(" ".join(toks))
    out += fam_iovw.generate(rng, n, tier, pid)
    return out


shrink_candidates = fam_iovw.shrink_candidates


def explain(bad):
    return {"spec": "after every operation every object's slices (lengths, chunk, offset), anchors (count, chunk), allocation cache (chunk, capacity, bump), pending backrefs, buffered bytes, return value and the live chunk/byte counters equal the prediction of the geometry-faithful model iovec/Geo.v"}


def semantic(case, obs, is_model):
    """What the properties talk about: return values, sizes, hole-freeness and bytes -- not where the bytes live."""
    out = []
    for b in canon(case, obs, is_model):
        if b == [99]:
            out.append(b)
            break
        out.append([b[0], [None if o is None else [o[0][0], o[0][2], o[2]] for o in b[1]]])
    return out
