"""Family `sdq` (C15): SlidingDeque histories on both backings."""
import itertools
from core import gz, glist

NAME = "sdq"
RUNFILE = "RunSdq"
PREAMBLE = ("From Coq Require Import ZArith NArith List. Import ListNotations. Open Scope Z_scope.\n"
            "From WP Require Import deque.Sliding run.RunSdq.")
RUNNER = "run_sdq"
FIELDS = ["per op: result", "per op: contiguous view", "per op: (consumed_prefix, container len)"]
SHARD = 1500


def parse(line):
    t = line.split()
    init = [int(x) for x in t[1][5:].split(",")] if t[1].startswith("from:") and len(t[1]) > 5 else []
    return t[0], init, t[2:]


def coq_op(o):
    p = o.split(":")
    k = p[0]
    if k == "pb":
        return f"PushBack {gz(int(p[1]))}"
    if k == "pf":
        return "PopFront"
    if k == "pk":
        return "PopBack"
    if k == "ad":
        return f"Advance {p[1]}%N"
    if k == "cl":
        return "Clear"
    if k == "sl":
        return "Slide"
    if k == "wr":
        return f"Write {p[1]}%nat {gz(int(p[2]))}"
    if k == "fr":
        return "Front"
    if k == "bk":
        return "Back"
    raise ValueError(o)


def coq_term(line):
    _, init, ops = parse(line)
    return "(" + glist([gz(x) for x in init]) + ", " + glist([coq_op(o) for o in ops]) + ")"


def view(pid, case, obs):
    """Binding: every result, every view, no panic, and the space clause consumed <= len/2 and
    (empty => consumed = 0) evaluated on the reported representation.  The exact
    (consumed, len) pair is advisory: another sliding policy could satisfy the property."""
    out = []
    for i, f in enumerate(obs):
        if i % 3 == 2 and len(f) == 2:
            view_empty = len(obs[i - 1]) == 0
            out.append([f[0] <= f[1] // 2, (not view_empty) or f[0] == 0])
        else:
            out.append(f)
    return out


def advisory_diff(case, impl, model):
    return impl != model


def nontrivial(case, obs):
    # non-trivial: at some point a consumed prefix was actually held (consumed > 0)
    return any(i % 3 == 2 and len(f) == 2 and f[0] > 0 for i, f in enumerate(obs))


def stats(cases, obs):
    st = {"ops": 0, "held_prefix": 0, "small_backing": 0, "heap_transition": 0}
    for c, o in zip(cases, obs):
        b, init, ops = parse(c)
        st["ops"] += len(ops)
        st["small_backing"] += b == "small"
        st["held_prefix"] += nontrivial(c, o)
        st["heap_transition"] += b == "small" and any(i % 3 == 2 and len(f) == 2 and f[1] > 4 for i, f in enumerate(o))
    return st


ALPHA = ["pb", "pf", "pk", "ad:1", "ad:2", "cl", "sl", "wr:0", "ad:9", "wr:1"]


def mk(ops):
    out, v = [], 10
    for o in ops:
        if o == "pb":
            v += 1
            out.append(f"pb:{v}")
        elif o.startswith("wr"):
            v += 1
            out.append(f"{o}:{v}")
        else:
            out.append(o)
    return out


def generate(rng, n, tier, pid):
    out = []
    # exhaustive short histories (the enumeration of DESIGN.md C15): all histories of length <= L
    L = 5 if tier == "quick" else 6
    alpha = ALPHA[:8]
    k = 0
    for ln in range(1, L + 1):
        for ops in itertools.product(alpha, repeat=ln):
            # skip histories whose first op is not a push (they are covered by shorter ones from a pre-filled start)
            backing = "vec" if k % 2 == 0 else "small"
            init = "from:1,2,3,4" if k % 3 == 0 else ("from:1,2,3,4,5,6" if k % 3 == 1 else "new")
            k += 1
            out.append(f"{backing} {init} " + " ".join(mk(ops)))
    # random long histories crossing the inline capacity of the SmallVec backing
    m = n
    for _ in range(m):
        ln = rng.choice([8, 20, 60, 200])
        ops = []
        for _ in range(ln):
            ops.append(rng.weighted([(8, "pb"), (4, "pf"), (3, "pk"), (2, f"ad:{rng.below(4)}"), (1, f"ad:{rng.below(40)}"),
                                     (1, "ad:18446744073709551615"), (1, "cl"), (1, "sl"), (2, f"wr:{rng.below(6)}"),
                                     (1, "fr"), (1, "bk")]))
        ini = rng.below(9)
        init = "new" if ini == 0 else "from:" + ",".join(str(100 + i) for i in range(ini))
        out.append(f"{rng.choice(['vec', 'small'])} {init} " + " ".join(mk(ops)))
    return out


def shrink_candidates(line):
    b, init, ops = parse(line)
    head = line.split()[:2]
    c = []
    for i in range(len(ops)):
        c.append(" ".join(head + ops[:i] + ops[i + 1:]))
    if len(ops) > 1:
        c.append(" ".join(head + ops[:len(ops) // 2]))
    if init:
        c.append(" ".join([head[0], "from:" + ",".join(map(str, init[:-1])) if len(init) > 1 else "new"] + ops))
    return c


def explain(bad):
    return {"spec": "results and view equal the list deque; consumed_prefix <= container_len/2; empty => consumed_prefix = 0; no panic",
            "fields": "3 per op: result / view / (consumed, len)"}
