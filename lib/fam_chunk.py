"""Family `chunk` (C08): StreamChunker::pump over scheduled readers."""
import itertools
from core import gbytes, hexs
import fam_hcobs

NAME = "chunk"
RUNFILE = "RunStream"
PREAMBLE = ("From Coq Require Import NArith ZArith List. Import ListNotations. Open Scope N_scope.\n"
            "From WP Require Import run.RunStream.")
RUNNER = "run_chunk"
FIELDS = ["one field per chunk: [0, end offset, data...] | [1, end offset] | [2] (98: Eof not sticky, 97: a returned slice changed later, 99: panic)"]
SHARD = 800
FE, FD = 0xFE, 0xFD


def parse(line):
    t = line.split()
    return int(t[0]), t[1], (list(bytes.fromhex(t[2])) if t[2] != "-" else []), t[3:]


def coq_term(line):
    bs, arena, s, sched = parse(line)
    return f"({bs}, {gbytes(s)})"


def tiling_ok(case, obs):
    """The property itself, evaluated on an observation."""
    bs, arena, s, sched = parse(case)
    pos, out, prev_fe = 0, [], False
    if not obs or obs[-1] != [2]:
        return False
    for c in obs[:-1]:
        if c[0] == 0:
            d = c[2:]
            if not d or not fam_hcobs.no_stuff(d) or (prev_fe and d[0] == FD):
                return False
            pos += len(d)
            if c[1] != pos:
                return False
            out += d
            prev_fe = d[-1] == FE
        elif c[0] == 1:
            pos += 2
            if c[1] != pos:
                return False
            out += [FE, FD]
            prev_fe = False
        else:
            return False
    return out == s


def view(pid, case, obs):
    # binding: the tiling property on the observed chunk sequence, and every FE FD reported as a sentinel
    # (the exact cut points of Data chunks depend on block size and are compared as well: the model
    #  follows the same block size, and the property allows only these cuts up to block boundaries)
    return [tiling_ok(case, obs), [c[:2] for c in obs if c and c[0] == 1]]


def advisory_diff(case, impl, model):
    return impl != model


def nontrivial(case, obs):
    return sum(1 for c in obs if c and c[0] == 1) >= 1 and sum(1 for c in obs if c and c[0] == 0) >= 2


def stats(cases, obs):
    st = {"sentinels": 0, "data_chunks": 0}
    for c, o in zip(cases, obs):
        bs = int(c.split()[0])
        k = "bs_%s" % (bs if bs < 4 else ("small" if bs < 100 else "large"))
        st[k] = st.get(k, 0) + 1
        st["sentinels"] += sum(1 for x in o if x and x[0] == 1)
        st["data_chunks"] += sum(1 for x in o if x and x[0] == 0)
    return st


def rand_sched(rng):
    out = []
    for _ in range(rng.below(12)):
        k = rng.weighted([(4, f"s:{rng.range(1, 4)}"), (2, "i"), (1, f"s:{rng.range(5, 40)}"), (1, "burst")])
        if k == "burst":
            # a run of EINTR long enough to exhaust any small retry budget (the refill retries without bound)
            out += ["i"] * rng.choice([5, 7, 8, 9, 15, 16, 17, 33, 70])
        else:
            out.append(k)
    return out


def rand_stream(rng, n):
    k = rng.below(3)
    if k == 0:
        return [rng.choice([FE, FD, 0]) for _ in range(n)]
    if k == 1:
        return [rng.choice([FE, FD, FE, FD, 1, 2, 3]) for _ in range(n)]
    return [rng.below(256) if rng.chance(9, 10) else rng.choice([FE, FD]) for _ in range(n)]


def generate(rng, n, tier, pid):
    out = []
    L = 6 if tier == "quick" else 9
    k = 0
    for ln in range(0, L + 1):
        for s in itertools.product([FE, FD, 0], repeat=ln):
            for bs in (0, 1, 2, 3, 5):
                k += 1
                if tier == "quick" and ln >= 5 and k % 3:
                    continue
                sched = [[], ["s:1"] * 20, ["i", "s:2", "i", "i", "s:1"]][k % 3]
                out.append(f"{bs} {'used' if k % 2 else 'none'} {hexs(list(s))} " + " ".join(sched))
    # arena geometry: the chunk sequence must not depend on how much room the caller's arena has left
    # when a refill happens (a carried FE with 0, 1, 2.. bytes of room is where a clamped read shows)
    La = 4 if tier == "quick" else 6
    for ln in range(1, La + 1):
        for s in itertools.product([FE, FD, 0], repeat=ln):
            if FE not in s:
                continue
            for bs in (1, 2, 3):
                for rem in range(0, 7):
                    k += 1
                    if tier == "quick" and ln >= 4 and k % 2:
                        continue
                    out.append(f"{bs} rem{rem} {hexs(list(s))}")
    # EINTR bursts starting at every read call of a short stream with a carried byte (FE at a block end, or one
    # byte left after a sentinel)
    for s in ([0x61, 0x62, FE, FD, 0x63, 0x64], [FE, FD, 0x61, FE, FD, FE], [0x61, FE, FE, FD, FD, FE, FD]):
        for bs in (1, 2, 3):
            for start in range(0, 5):
                for burst in ((7, 8, 16) if tier == "quick" else (3, 6, 7, 8, 9, 15, 16, 17, 40)):
                    out.append(f"{bs} none {hexs(s)} " + " ".join(["f"] * start + ["i"] * burst))
    for _ in range(n):
        bs = rng.weighted([(3, rng.below(6)), (2, rng.range(6, 70)), (1, 4096), (1, 524288)])
        s = rand_stream(rng, rng.weighted([(3, rng.below(30)), (2, rng.below(300)), (1, rng.below(1500))]))
        arena = rng.weighted([(2, 'none'), (2, 'used'), (3, f"rem{rng.below(8)}"), (2, f"rem{bs + rng.below(4)}"), (1, f"rem{rng.below(300)}")])
        out.append(f"{bs} {arena} {hexs(s)} " + " ".join(rand_sched(rng)))
    return out


def shrink_candidates(line):
    t = line.split()
    c = [" ".join(t[:i] + t[i + 1:]) for i in range(3, len(t))]
    h = t[2]
    if h != "-" and len(h) >= 4:
        for i in range(0, len(h), 2):
            c.append(" ".join(t[:2] + [(h[:i] + h[i + 2:]) or "-"] + t[3:]))
            if len(c) > 60:
                break
    return c


def explain(bad):
    return {"spec": "chunks up to Eof tile the stream: Data payloads and FE FD per Sentinel concatenate to the input, offsets are absolute ends, Data non-empty and FE FD-free, no FE|FD across consecutive Data, Eof only at the end"}
