"""Family `gdec` (C02 C03 C05 C07): the Decoder (hook ParamDecoder: caller-chosen chunk limits) and its OwningIovec at memory
level against hcobs/GeoDec.v over iovec/Geo.v: after construction and after every call (decode borrowed, decode_copy,
read_n + decode_anchored, consume, Read, finish) the result (Ok / Err), the decoder state (tag, remaining or first header
byte, flag) and the complete structural state of the iovec -- slice lengths and pointers (chunk creation number, offset),
anchors (count, chunk), allocation cache, bytes -- and the live chunk / byte counters are compared.  Nothing is taken from the
implementation's observation."""
from core import gbytes_runs as gbytes, glist, hexs
from fam_iovw import hash_bytes, hexb
import fam_hcobs
import fam_genc

NAME = "gdec"
RUNFILE = "RunGdec"
PREAMBLE = ("From Coq Require Import NArith ZArith List. Import ListNotations. Open Scope N_scope.\n"
            "From WP Require Import iovec.Geo hcobs.GeoDec run.RunGdec run.Hex.")
RUNNER = "run_gdec"
FIELDS = ["per step (construction first): [ok, return value...] (decode ops: 1 Ok / 0 Err)", "decoder state [tag, remaining | first header byte, flag] ([] after finish)",
          "the seven iovec fields of family geo (empty after a failed finish)", "[live chunks, live bytes, every slice in live memory]"]
SHARD = 60
BLOCK = 10


def coq_term(line):
    t = line.split()
    ops = []
    for tok in t[2:]:
        p = tok.split(":")
        k = p[0]
        if k == "d":
            ops.append(f"YOp (GDBorrow {gbytes(hexb(p[1]))})")
        elif k == "c":
            ops.append(f"YOp (GDCopy {gbytes(hexb(p[1]))})")
        elif k == "r":
            ops.append(f"YOp (GDRead {gbytes(hexb(p[1]))} {p[2]})")
        elif k == "cs":
            ops.append(f"YOp (GDConsume {p[1]})")
        elif k == "rd":
            ops.append(f"YOp (GDRd {p[1]})")
        elif k == "fin":
            ops.append("YFin")
        else:
            raise ValueError(k)
    return f"({t[0]}, {t[1]}, {glist(ops)})"


blocks = fam_genc.blocks


def canon(obs, is_model):
    out = []
    for b in blocks(obs):
        if b is None:
            out.append([99])
            break
        f = b[2:9]
        if not f[0]:
            out.append([b[0], b[1], None, b[9][:2]])
            continue
        dig = f[2]          # both sides print the digest [length, s1, s2]
        out.append([b[0], b[1], [f[0], f[1], dig, f[3], f[4], f[5], f[6]], b[9][:2]])
    return out


def view_im(pid, case, obs, is_model):
    return canon(obs, is_model)


def cross_checks(pid, case, impl_obs, model_obs):
    for n, b in enumerate(blocks(impl_obs)):
        if b is None:
            break
        if len(b[9]) > 2 and b[9][2] != 1:
            return f"step {n}: a slice of the decoder's iovec points outside live memory"
        if b[5] and (-1 in b[5][1::2] or (b[7] and b[7][0] == -1)):
            return f"step {n}: an anchor or the cache refers to a chunk that is not live"
    return None


def nontrivial(case, obs):
    return sum(1 for b in blocks(obs) if b and len(b[0]) >= 2 and b[0][1] == 1) >= 2


def stats(cases, obs):
    st = {"ops": 0, "borrow": 0, "copy": 0, "read": 0, "finish_ok": 0, "finish_err": 0, "decode_err": 0, "panics": 0, "chunks_max": 0}
    for c, o in zip(cases, obs):
        t = c.split()
        st["ops"] += len(t) - 2
        bl = blocks(o)
        for tok, b in zip(["new"] + t[2:], bl):
            if b is None:
                st["panics"] += 1
                break
            st["borrow"] += tok.startswith("d:")
            st["copy"] += tok.startswith("c:")
            st["read"] += tok.startswith("r:")
            if tok == "fin":
                st["finish_ok" if b[0][1] == 1 else "finish_err"] += 1
            elif tok[:2] in ("d:", "c:", "r:") and b[0][1] == 0:
                st["decode_err"] += 1
            if b[6]:
                st["chunks_max"] = max([st["chunks_max"]] + b[6][0::2])
    return st


def pieces_ops(rng, e, allow_big=True):
    toks = []
    for p in fam_hcobs.segment(rng, e, 5):
        kind = rng.weighted([(4, "d"), (3, "c"), (3, "r")])
        if kind == "r":
            count = len(p) + rng.weighted([(3, 0), (2, rng.range(1, 8)), (1, rng.choice([100, 4096]))])
            toks.append(f"r:{hexs(p)}:{count}")
        else:
            toks.append(f"{kind}:{hexs(p)}")
        if rng.chance(1, 4):
            toks.append(rng.choice(["cs", "rd"]) + ":" + str(rng.choice([0, 1, 2, 5, 100, 5000])))
    return toks


def generate(rng, n, tier, pid):
    out = []
    # directed: a pending FE FD followed by each kind of header byte (the copy happens before the header is looked at)
    for mi, ms in ((1, 1), (2, 3), (3, 2)):
        for b in (0, 1, 2, 3, 4, 252, 253, 254, 255):
            for meth in ("d", "c", "r"):
                first = [0]                                   # an empty first chunk: a stuff sequence is pending
                arg2 = hexs([b, 0, 0x61, 0x62][: 2 + (b if b < 3 else 0)])
                a1 = hexs(first) + (":1" if meth == "r" else "")
                a2 = arg2 + (f":{len(arg2) // 2 + 2}" if meth == "r" else "")
                out.append(f"{mi} {ms} {meth}:{a1} {meth}:{a2} fin rd:100")
    for _ in range(n):
        mi, ms = rng.weighted([(4, (rng.range(1, 5), rng.range(1, 5))), (2, (rng.range(5, 40), rng.range(5, 70))),
                               (3, (252, 64008))])
        big = (mi, ms) == (252, 64008)
        kind = rng.weighted([(5, "valid"), (3, "malformed"), (1, "two")])
        if kind == "malformed":
            e = fam_hcobs.malformed(rng, mi, ms)
        else:
            ln = rng.weighted([(5, rng.below(12)), (3, rng.range(12, 120)), (2 if big else 1, rng.range(120, 900)),
                               (2 if big else 0, rng.range(3000, 9000)), (1 if big else 0, rng.range(64000, 70000))])
            m = fam_genc.rand_piece(rng, ln)
            e = fam_hcobs.ref_encode(m, mi, ms)
            if kind == "two":
                e = e + fam_hcobs.ref_encode(fam_genc.rand_piece(rng, rng.below(9)), mi, ms)
        toks = pieces_ops(rng, e)
        if rng.chance(5, 6):
            toks.append("fin")
            toks.append(f"rd:{rng.choice([1, 7, 100000])}")
            if rng.chance(1, 2):
                toks.append("rd:100000")
        out.append(f"{mi} {ms} " + " ".join(toks))
    return out


def shrink_candidates(line):
    t = line.split()
    c = [" ".join(t[:i] + t[i + 1:]) for i in range(2, len(t))]
    for i in range(2, len(t)):
        p = t[i].split(":")
        if p[0] in ("d", "c", "r") and len(p[1]) >= 4 and p[1] != "-":
            for cut in (len(p[1]) // 4 * 2, 2):
                q = list(p)
                q[1] = p[1][:-cut] or "-"
                if p[0] == "r":
                    q[2] = str(max(0, int(p[2]) - cut // 2))
                c.append(" ".join(t[:i] + [":".join(q)] + t[i + 1:]))
    return c[:60]


def semantic(case, obs, is_model):
    """Ok / Err, decoder state, total size and bytes -- not slice pointers, anchors, cache."""
    out = []
    for b in canon(obs, is_model):
        if b == [99]:
            out.append(b)
            break
        o = b[2]
        out.append([b[0], b[1], None if o is None else [o[0][0], o[0][2], o[2]]])
    return out
