"""Family `hcobs` (C01, C02, C07, C09): Encoder / Decoder histories at production and tiny limits."""
import itertools, os, sys
from core import gbytes, glist, hexs
import translate

NAME = "hcobs"
RUNFILE = "RunHcobs"
PREAMBLE = ("From Coq Require Import NArith ZArith List. Import ListNotations. Open Scope N_scope.\n"
            "From WP Require Import hcobs.Stuffing hcobs.EncSink run.RunHcobs.")
RUNNER = "run_hcobs"
FIELDS = ["[encoder ok]", "complete encoder output (drained ++ finish)", "encoder state (cur,mid,max)* after every piece (hooks only)",
          "[decoder 0 accepted | 1 rejected]", "decoder output", "impl only: [enc prefix ok, dec prefix ok, dec lag zero, round trip]",
          "impl only: [max encoder lag in bytes]"]
SHARD = 400
FE, FD = 0xFE, 0xFD
_P = None


def prod():
    global _P
    if _P is None:
        p = translate.translate_params()
        _P = (p["PROD_MAX_INITIAL"], p["PROD_MAX_SUBSEQUENT"])
    return _P


def parse(line):
    t = line.split()
    if t[0] == "P":
        mi, ms = prod()
    else:
        mi, ms = int(t[0]), int(t[1])
    d = t.index("D")
    eops = t[3:d]
    dops = t[d + 1:]
    explicit = None
    if dops and dops[0].startswith("X"):
        explicit = list(bytes.fromhex(dops[0][1:])) if len(dops[0]) > 1 and dops[0][1:] != "-" else []
        dops = dops[1:]
    return t[0] == "P", mi, ms, eops, explicit, dops


def coq_term(line):
    isprod, mi, ms, eops, explicit, dops = parse(line)
    ops = []
    for o in eops:
        k, v = o.split(":")
        if k.startswith("d"):
            # the model drains nothing: what is drained early never changes what comes out in total
            continue
        ops.append("EPiece " + gbytes(list(bytes.fromhex(v)) if v != "-" else []))
    sizes = [v for k, v in (o.split(":") for o in dops) if not k.startswith("d")]
    ex = "(@None (list N))" if explicit is None else f"(Some {gbytes(explicit)})"
    return f"({mi}%N, {ms}%N, {glist(ops)}, {ex}, {glist([s + '%nat' for s in sizes])})"


def no_stuff(bs):
    return all(not (bs[i] == FE and bs[i + 1] == FD) for i in range(len(bs) - 1))


def original_len(line):
    isprod, mi, ms, eops, explicit, dops = parse(line)
    return sum(len(v) // 2 for k, v in (o.split(":") for o in eops) if not k.startswith("d") and v != "-")


def view(pid, case, obs):
    if len(obs) < 5:
        return obs
    enc_ok, out, st, dres, dout = obs[:5]
    flags = obs[5] if len(obs) > 5 else [1, 1, 1, 1]
    lag = obs[6][0] if len(obs) > 6 else 0
    isprod, mi, ms, eops, explicit, dops = parse(case)
    if pid == "C01":
        return [enc_ok, dres, dout, flags[3]]
    if pid == "C02":
        n = original_len(case)
        bound = n + 1 + 2 * ((n + ms - 1) // ms) if mi >= 1 else None
        return [enc_ok, out, no_stuff(out), len(out) <= bound]
    if pid == "C07":
        return [enc_ok, out, dres, dout]
    if pid == "C09":
        # lag: one arena chunk (at most 2^20 bytes unless a single request is larger) + one HCOBS chunk + header
        return [enc_ok, out, flags[0:3], lag <= (1 << 20) + ms + 2]
    return obs[:5]


def advisory_diff(case, impl, model):
    return len(impl) >= 5 and len(model) >= 5 and impl[2] != model[2] and impl[2] != []


def nontrivial(case, obs):
    # non-trivial: the message needed at least two chunks (output longer than input + 1) or was split in >= 2 calls
    isprod, mi, ms, eops, explicit, dops = parse(case)
    npieces = sum(1 for o in eops if not o.startswith("d"))
    return npieces >= 2 or (len(obs) > 1 and len(obs[1]) > original_len(case) + 1)


def stats(cases, obs):
    st = {}
    for c, o in zip(cases, obs):
        isprod, mi, ms, eops, explicit, dops = parse(c)
        st["prod" if isprod else "tiny"] = st.get("prod" if isprod else "tiny", 0) + 1
        if explicit is not None:
            st["explicit_decoder_input"] = st.get("explicit_decoder_input", 0) + 1
        if len(o) > 3:
            st["dec_accept" if o[3] == [0] else "dec_reject"] = st.get("dec_accept" if o[3] == [0] else "dec_reject", 0) + 1
        n = original_len(c)
        if isprod and n > mi:
            st["crossed_first_limit"] = st.get("crossed_first_limit", 0) + 1
        if isprod and n > mi + ms:
            st["crossed_second_limit"] = st.get("crossed_second_limit", 0) + 1
        if any(o2.startswith("d") for o2 in eops):
            st["with_encoder_drains"] = st.get("with_encoder_drains", 0) + 1
        if len(o) > 2 and any(o[2][i] == 1 for i in range(1, len(o[2]), 3)):
            st["held_back_FE"] = st.get("held_back_FE", 0) + 1
    return st


# ---- reference encoder (generation of malformed decoder inputs only) ----
def ref_encode(m, mi, ms):
    out, limit, first, i = [], mi, True, 0
    while True:
        w = m[i:i + limit]
        idx = next((j for j in range(len(w) - 1) if w[j] == FE and w[j + 1] == FD), None)
        if idx is not None:
            c, i2, last = m[i:i + idx], i + idx + 2, False
        elif len(m) - i >= limit:
            c, i2, last = w, i + limit, False
        else:
            c, i2, last = m[i:], len(m), True
        out += ([len(c)] if first else [len(c) % 253, len(c) // 253]) + c
        first, limit, i = False, ms, i2
        if last:
            return out


def segment(rng, m, maxpieces=6):
    cuts = sorted(rng.below(len(m) + 1) for _ in range(rng.below(maxpieces)))
    pieces, prev = [], 0
    for c in cuts + [len(m)]:
        pieces.append(m[prev:c])
        prev = c
    return pieces


def enc_ops(rng, m, prodmode):
    ops = []
    for p in segment(rng, m):
        meth = rng.weighted([(4, "b"), (4, "c"), (2, "a"), (1, "r")])
        if not p and meth in "ar":
            meth = "c"
        ops.append(f"{meth}:{hexs(p)}")
        if rng.chance(1, 3):
            ops.append(rng.choice(["ds", "db", "dr"]) + ":" + str(rng.choice([1, 2, 3, 7, 100000])))
    return ops


def dec_ops(rng, n):
    ops, left = [], n
    for _ in range(rng.below(6)):
        k = rng.choice([1, 2, 3, rng.below(max(1, left) + 1)])
        ops.append(rng.weighted([(4, "b"), (4, "c"), (2, "a"), (1, "r")]) + f":{k}")
        left = max(0, left - k)
        if rng.chance(1, 3):
            ops.append(rng.choice(["ds", "db", "dr"]) + ":" + str(rng.choice([1, 2, 5, 100000])))
    return ops


def rand_msg(rng, n, dense):
    if dense == 2:
        return [rng.choice([FE, FD]) for _ in range(n)]
    if dense == 1:
        return [rng.choice([FE, FD, 0, 1, FE, FD]) for _ in range(n)]
    return [rng.below(256) if rng.chance(19, 20) else rng.choice([FE, FD]) for _ in range(n)]


def malformed(rng, mi, ms):
    m = rand_msg(rng, rng.below(3 * ms + 4) if ms < 20 else rng.choice([0, 5, 300, mi, mi + 1]), rng.below(3))
    e = ref_encode(m, mi, ms)
    k = rng.below(7)
    if k == 0 and e:
        e = e[:rng.below(len(e))]                       # truncation
    elif k == 1 and e:
        e[rng.below(len(e))] = rng.choice([253, 254, 255])  # out-of-radix byte somewhere
    elif k == 2:
        e = e + [rng.below(256) for _ in range(1 + rng.below(4))]  # trailing bytes
    elif k == 3 and e:
        i = rng.below(len(e))
        e[i] = (e[i] + 1) % 256                         # single byte change
    elif k == 4:
        e = [rng.below(256) for _ in range(rng.below(12))]  # random
    elif k == 5:
        e = [rng.choice([mi, mi + 1, 0, 1, 252, 253])] + [rng.below(4) for _ in range(rng.below(3 * ms + 3) if ms < 20 else rng.below(300))]
    return e


def header_attacks(mi, ms, tag):
    """Decoder inputs that are well-formed except for one header digit (or well-formed for the length a
    lenient decoder would read): every digit value around RADIX and around the size limits, in the
    initial header and in both digits of a later header, followed by exactly the payload that length
    announces (capped) and a clean end."""
    out = []
    digs = sorted({0, 1, 2, 250, 251, 252, 253, 254, 255, mi % 253, (mi + 1) % 256, ms % 253, (ms % 253 + 1) % 256, ms // 253, (ms // 253 + 1) % 256})
    cap = 800 if ms > 1000 else 40

    def pay(n, b):
        return [b] * min(n, cap)

    for h0 in digs:
        for tail in ([], [0, 0]):
            e = [h0] + pay(h0, 0x61) + tail
            out.append(f"{tag} E D X{hexs(e)} b:{len(e)}")
    first = [min(mi, 2)] + pay(min(mi, 2), 0x62)        # a short first chunk (ended by a stuff sequence)
    for lo in digs:
        for hi in digs:
            if hi > 3 and hi not in (ms // 253, (ms // 253 + 1) % 256, 252, 253, 254, 255):
                continue
            n = lo + 253 * hi
            e = first + [lo, hi] + pay(n, 0x61)
            out.append(f"{tag} E D X{hexs(e)} c:{len(first)} b:{len(e)}")
            if n <= cap:
                out.append(f"{tag} E D X{hexs(e + [0, 0])} b:1 c:{len(e) + 1}")
    return out


def generate(rng, n, tier, pid):
    out = []
    tiny = [(3, 5), (1, 1), (2, 3), (1, 2), (4, 4), (5, 3)]
    # exhaustive tiny part: all strings over {FE, FD, 00} up to length L, two segmentations each
    L = 6 if tier == "quick" else 8
    k = 0
    for ln in range(0, L + 1):
        for m in itertools.product([FE, FD, 0], repeat=ln):
            m = list(m)
            mi, ms = tiny[k % 2]
            cut = k % (ln + 1)
            k += 1
            out.append(f"{mi} {ms} E b:{hexs(m)} D")
            out.append(f"{mi} {ms} E c:{hexs(m[:cut])} {'b' if k % 3 else 'a'}:{hexs(m[cut:])} db:{k % 5} D c:{1 + k % 3} ds:1 b:{k % 4}")
    pmi0, pms0 = prod()
    out += header_attacks(pmi0, pms0, "P P") + header_attacks(3, 5, "3 5") + header_attacks(1, 1, "1 1")
    nt = n * 6 // 10
    for _ in range(nt):
        mi, ms = rng.choice(tiny)
        if rng.chance(1, 4):
            e = malformed(rng, mi, ms)
            out.append(f"{mi} {ms} E D X{hexs(e)} " + " ".join(dec_ops(rng, len(e))))
            continue
        m = rand_msg(rng, rng.below(5 * ms + 6), rng.below(3))
        out.append(f"{mi} {ms} E " + " ".join(enc_ops(rng, m, False)) + " D " + " ".join(dec_ops(rng, len(m) + 4)))
    pmi, pms = prod()
    np_ = n - nt
    for i in range(np_):
        if rng.chance(1, 5):
            e = malformed(rng, pmi, pms)
            out.append("P P E D X" + hexs(e) + " " + " ".join(dec_ops(rng, len(e))))
            continue
        # production-size messages are expensive on both sides (hundreds of KB of observations each): every 40th production
        # case may be one in the quick tier, every 10th in the thorough tier
        big = i % (40 if tier == "quick" else 10) == 0
        ln = rng.weighted([(6, rng.below(40)), (6, rng.range(pmi - 4, pmi + 5)), (3, rng.below(1200)),
                           (2 if big else 0, rng.range(pms - 8, pms + 8)), (2 if big else 0, rng.range(pmi + pms - 6, pmi + pms + 8)),
                           (1 if big else 0, rng.range(pmi + 2 * pms - 8, pmi + 2 * pms + 8))])
        dense = rng.weighted([(3, 0), (2, 1), (1, 2)]) if ln < 2000 else rng.weighted([(6, 0), (1, 1)])
        m = rand_msg(rng, max(0, ln), dense)
        if ln > 2000 and rng.chance(1, 2):
            # put FE / FD right at the chunk limits
            for pos in (pmi - 1, pmi, pmi + pms - 1, pmi + pms, pmi + pms + 1):
                if 0 <= pos < len(m):
                    m[pos] = rng.choice([FE, FD])
        out.append("P P E " + " ".join(enc_ops(rng, m, True)) + " D " + " ".join(dec_ops(rng, len(m) + 6)))
    return out


def shrink_candidates(line):
    t = line.split()
    d = t.index("D")
    c = []
    for i in range(3, len(t)):
        if i != d:
            c.append(" ".join(t[:i] + t[i + 1:]))
    # halve the longest piece
    best = max(range(3, d), key=lambda i: len(t[i]), default=None)
    if best is not None and ":" in t[best] and not t[best].startswith("d"):
        k, v = t[best].split(":")
        if v != "-" and len(v) >= 4:
            h = (len(v) // 4) * 2
            c.append(" ".join(t[:best] + [f"{k}:{v[:h]}"] + t[best + 1:]))
            c.append(" ".join(t[:best] + [f"{k}:{v[h:]}"] + t[best + 1:]))
    return c


def explain(bad):
    return {"spec": "encoder output = canonical HCOBS encoding of the concatenated input (no FE FD, bounded length, independent of segmentation / method / drains); decoder accepts exactly the format and returns the original; drained output is a prefix of the result"}
