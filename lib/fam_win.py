"""Family `win` (C14): `<nanos> <base> <ok|other:<t>|params2>`."""
from core import gz, gbool

NAME = "win"
RUNFILE = "RunWin"
PREAMBLE = "From Coq Require Import ZArith List. Import ListNotations. Open Scope Z_scope.\nFrom WP Require Import run.RunWin."
RUNNER = "run_win"
FIELDS = ["result_code(0 ok,1 bad voucher,2 before epoch,3 out of range,4 ahead,5 behind,99 panic)", "local_time_reported_nanos"]
SHARD = 2000

U64 = 1 << 64
# representable PrimitiveDateTime range (time 0.3 without large-dates): years -9999..=9999
MIN_NANOS = -377705116800 * 10**9
MAX_NANOS = 253402300799 * 10**9 + 999999999


def parse(line):
    t = line.split()
    nanos, base = int(t[0]), int(t[1])
    if t[2] == "ok":
        v = True
    elif t[2].startswith("other:"):
        v = int(t[2][6:]) == base
    else:
        v = False
    return nanos, base, v


def coq_term(line):
    n, b, v = parse(line)
    return f"({gz(n)}, {gz(b)}, {gbool(v)})"


def binding(pid, case):
    return None


def view(pid, case, obs):
    """Binding view: success / error / panic and the reported local time.  Which error message is
    produced is advisory (the property only says when construction succeeds)."""
    code = obs[0][0] if obs and obs[0] else None
    # 90 / 91: check() and new() disagree on the same input (the harness calls both, twice each)
    cls = 0 if code == 0 else (code if code in (90, 91, 98, 99) else 1)
    return [cls, obs[1] if len(obs) > 1 else None]


def advisory_diff(case, impl, model):
    return impl != model


def nontrivial(case, obs):
    # non-trivial: the voucher is right, so the window rule decides
    return parse(case)[2]


def stats(cases, obs):
    st = {}
    for c, o in zip(cases, obs):
        k = "code_%d" % (o[0][0] if o and o[0] else -1)
        st[k] = st.get(k, 0) + 1
    return st


def generate(rng, n, tier, pid):
    out = []
    deltas = [-59901, -59900, -59899, -1, 0, 1, 2989, 2990, 2991]
    bases = [0, 1, 2989, 2990, 2991, 59899, 59900, 59901, 1713027659000, (1 << 63) - 1, 1 << 63, (1 << 63) + 1] + \
            [U64 - k for k in (1, 2, 2989, 2990, 2991, 2992, 59899, 59900, 59901)]
    locals_ms = [0, 1, 999, 1000, 2989, 2990, 2991, 3000, 59900, 1713027659000, MAX_NANOS // 10**6, MAX_NANOS // 10**6 - 2990]
    # boundary lattice (deterministic part)
    for b in bases:
        for d in deltas:
            l = b + d
            if MIN_NANOS // 10**6 < l <= MAX_NANOS // 10**6:
                for sub in (0, 999999):
                    out.append(f"{l * 10**6 + sub} {b} ok")
    for l in locals_ms:
        for b in bases:
            out.append(f"{l * 10**6} {b} ok")
    for nn in (-1, -999999, -1000000, -1000001, 0, 1, MIN_NANOS, MAX_NANOS):
        for b in (0, 1, 59900, U64 - 1):
            out.append(f"{nn} {b} ok")
    out = out[:max(0, n // 2)] if len(out) > n // 2 and n < 2000 else out
    while len(out) < n:
        kind = rng.below(10)
        if kind < 5:
            b = rng.choice([rng.below(U64), rng.below(1 << 48), rng.choice(bases), 1713027659000 + rng.below(10**9)])
            d = rng.choice([rng.choice(deltas), rng.range(-70000, 5000), rng.range(-10**9, 10**9)])
            l_ms = b + d
        elif kind < 7:
            l_ms = rng.range(MIN_NANOS // 10**6, MAX_NANOS // 10**6)
            b = rng.choice([rng.below(U64), max(0, l_ms + rng.range(-70000, 70000)) % U64])
        else:
            # wrapped bands of the pre-fix code
            l_ms = rng.range(0, 70000)
            b = U64 - 1 - rng.below(70000)
        nanos = l_ms * 10**6 + rng.below(10**6)
        nanos = min(max(nanos, MIN_NANOS), MAX_NANOS)
        vk = rng.weighted([(8, "ok"), (1, f"other:{(b + 1 + rng.below(5)) % U64}"), (1, "params2")])
        out.append(f"{nanos} {b} {vk}")
    return out


def directed(rng, proof, pid):
    return generate(rng, 3000, "thorough", pid)


def explain(bad):
    n, b, v = parse(bad["case"])
    q = abs(n) // 10**6 * (1 if n >= 0 else -1)
    return {"local_ms": q, "base_ms": b, "voucher_valid": v, "local_minus_base": q - b,
            "spec": "Ok iff voucher_valid and local_ms >= 0 and -59900 <= local_ms - base <= 2990"}
