#!/usr/bin/env python3
"""Source -> Coq translator (the "translated" half of the tie, DESIGN.md section 4.1).

Reads constants, parameter records and the atomic access sequences of
atomic_base_time.rs out of /repo's *current working tree* and writes
coq/gen/Params.v and coq/gen/Orderings.v.  It fails closed: anything it cannot
parse raises TranslateError (reported by ./check as a broken tie), never a
default value.  A generated file is rewritten only when its content changes so
that `make` rebuilds exactly what depends on a changed value.
"""
import ast, os, re, sys

REPO = os.environ.get("WOODPILE_REPO", "/repo")


class TranslateError(Exception):
    pass


def strip_comments(src):
    # remove // line comments and /* */ block comments (no nested, no strings with // in the items we read)
    src = re.sub(r"/\*.*?\*/", " ", src, flags=re.S)
    out = []
    for line in src.split("\n"):
        # keep string literals intact enough for our purposes: cut at // not inside quotes
        i, inq = 0, False
        cut = len(line)
        while i < len(line):
            c = line[i]
            if c == '"' and (i == 0 or line[i - 1] != "\\"):
                inq = not inq
            elif not inq and line.startswith("//", i):
                cut = i
                break
            i += 1
        out.append(line[:cut])
    return "\n".join(out)


def read(rel):
    p = os.path.join(REPO, rel)
    try:
        with open(p) as f:
            return strip_comments(f.read())
    except OSError as e:
        raise TranslateError(f"cannot read {rel}: {e}")


_ALLOWED = (ast.Expression, ast.BinOp, ast.UnaryOp, ast.Constant, ast.Add, ast.Sub, ast.Mult,
            ast.FloorDiv, ast.LShift, ast.RShift, ast.USub, ast.Name, ast.Load, ast.List, ast.Mod)


def eval_const(expr, env, what):
    """Evaluate a Rust integer constant expression with identifiers from env."""
    e = expr.strip()
    e = re.sub(r"\b(crate|self|super)::", "", e)
    e = re.sub(r"\bunsafe\s*\{\s*NonZeroUsize::new_unchecked\((.*)\)\s*\}", r"(\1)", e, flags=re.S)
    e = re.sub(r"\b(0x[0-9a-fA-F_]+|[0-9][0-9_]*)(usize|u64|u32|u8|i32|i64|i128|u128)?\b",
               lambda m: str(int(m.group(1).replace("_", ""), 0)), e)
    e = re.sub(r"\bas\s+(usize|u64|u32|i128|i64|u128)\b", "", e)
    e = e.replace("/", "//")
    try:
        tree = ast.parse(e.strip(), mode="eval")
    except SyntaxError:
        raise TranslateError(f"{what}: cannot parse constant expression {expr!r}")
    for n in ast.walk(tree):
        if not isinstance(n, _ALLOWED):
            raise TranslateError(f"{what}: unsupported construct {type(n).__name__} in {expr!r}")
        if isinstance(n, ast.Name) and n.id not in env:
            raise TranslateError(f"{what}: unknown identifier {n.id} in {expr!r}")
    return eval(compile(tree, "<const>", "eval"), {"__builtins__": {}}, dict(env))


def find_const(src, name, what):
    m = re.search(r"\b(?:pub(?:\([a-z]+\))?\s+)?const\s+" + re.escape(name) + r"\s*:\s*([^=]+?)=\s*(.*?);", src, flags=re.S)
    if not m:
        raise TranslateError(f"{what}: const {name} not found")
    return m.group(1).strip(), m.group(2).strip()


def translate_params():
    env = {}
    out = {}
    hc = read("hcobs/src/lib.rs")
    _, e = find_const(hc, "RADIX", "hcobs/src/lib.rs")
    env["RADIX"] = out["RADIX"] = eval_const(e, env, "RADIX")
    ty, e = find_const(hc, "STUFF_SEQUENCE", "hcobs/src/lib.rs")
    v = eval_const(e, env, "STUFF_SEQUENCE")
    if not (isinstance(v, list) and len(v) == 2):
        raise TranslateError("STUFF_SEQUENCE is not a two-element array")
    out["STUFF0"], out["STUFF1"] = v
    m = re.search(r"const\s+PROD_PARAMS\s*:\s*Parameters\s*=\s*Parameters\s*\{(.*?)\}\s*;", hc, flags=re.S)
    if not m:
        raise TranslateError("PROD_PARAMS not found")
    body = m.group(1)
    for field, key in (("max_initial_size", "PROD_MAX_INITIAL"), ("max_subsequent_size", "PROD_MAX_SUBSEQUENT")):
        fm = re.search(field + r"\s*:\s*(unsafe\s*\{.*?\}\s*\}|[^,]+),", body + ",", flags=re.S)
        if not fm:
            raise TranslateError(f"PROD_PARAMS.{field} not found")
        expr = fm.group(1)
        # unsafe { NonZeroUsize::new_unchecked(X) }
        um = re.search(r"new_unchecked\((.*)\)\s*\}", expr, flags=re.S)
        out[key] = eval_const(um.group(1) if um else expr, env, key)
    sr = read("hcobs/src/stream_reader.rs")
    _, e = find_const(sr, "DEFAULT_BLOCK_SIZE", "hcobs/src/stream_reader.rs")
    out["DEFAULT_BLOCK_SIZE"] = eval_const(e, env, "DEFAULT_BLOCK_SIZE")

    im = read("owning_iovec/src/implementation.rs")
    for n in ("SMALL_COPY", "MAX_OPPORTUNISTIC_COPY"):
        _, e = find_const(im, n, "implementation.rs")
        out[n] = eval_const(e, env, n)
    ar = read("owning_iovec/src/byte_arena/mod.rs")
    _, e = find_const(ar, "BUMP_REGION_SIZE_SEQUENCE", "byte_arena/mod.rs")
    seq = eval_const(e, env, "BUMP_REGION_SIZE_SEQUENCE")
    if not isinstance(seq, list) or not seq:
        raise TranslateError("BUMP_REGION_SIZE_SEQUENCE is not a non-empty array")
    out["BUMP_REGION_SIZE_SEQUENCE"] = seq
    _, e = find_const(ar, "BUMP_REGION_SIZE_FACTOR", "byte_arena/mod.rs")
    out["BUMP_REGION_SIZE_FACTOR"] = eval_const(e, env, "BUMP_REGION_SIZE_FACTOR")

    vt = read("vouched_time/src/lib.rs")
    for n in ("MAX_FORWARD_DISCREPANCY_MS", "MAX_BACKWARD_DISCREPANCY_MS"):
        _, e = find_const(vt, n, "vouched_time/src/lib.rs")
        env[n] = out[n] = eval_const(e, env, n)
    nf = read("vouched_time/src/nfs_voucher.rs")
    _, e = find_const(nf, "DEFAULT_LEEWAY_MS", "nfs_voucher.rs")
    out["DEFAULT_LEEWAY_MS"] = eval_const(e, env, "DEFAULT_LEEWAY_MS")
    return out


def params_v(p):
    L = ["(* GENERATED by lib/translate.py from /repo's working tree -- do not edit, never committed *)",
         "From Coq Require Import NArith ZArith List.", "Import ListNotations.", "Local Open Scope N_scope.", ""]
    for k, v in p.items():
        if isinstance(v, list):
            L.append(f"Definition {k} : list N := [{'; '.join(str(x) for x in v)}].")
        else:
            L.append(f"Definition {k} : N := {v}.")
    L.append("")
    return "\n".join(L)


# --------------------------------------------------------------------------------------
# atomic access sequences of vouched_time/src/atomic_base_time.rs

def fn_body(src, header_re, what):
    m = re.search(header_re, src)
    if not m:
        raise TranslateError(f"{what}: function not found")
    i = src.index("{", m.end() - 1) if src[m.end() - 1] != "{" else m.end() - 1
    depth, j = 0, i
    while j < len(src):
        if src[j] == "{":
            depth += 1
        elif src[j] == "}":
            depth -= 1
            if depth == 0:
                return src[i + 1:j]
        j += 1
    raise TranslateError(f"{what}: unbalanced braces")


def access_list(body, what):
    """The ordered list of atomic accesses / lock operations / calls / control keywords of a body."""
    toks = []
    pat = re.compile(
        r"\.(?P<op>load|store)\s*\("
        r"|(?P<lock>\.(?:try_lock|lock)\s*\(\s*\))"
        r"|(?P<call>\b(?:advance_once|snapshot|update|try_update|clear_poison)\s*\()"
        r"|(?P<kw>\bloop\b|\bwhile\b|\bfor\b|\breturn\b|\bbreak\b|\bcontinue\b)")
    for m in pat.finditer(body):
        if m.group("op"):
            # receiver: the path expression immediately before `.load(` / `.store(`
            j = m.start()
            k = j
            while k > 0 and (body[k - 1].isalnum() or body[k - 1] in "_.[]()% "):
                if body[k - 1] == " " and not (k >= 2 and body[k - 2] in "%"):
                    break
                k -= 1
            recv = re.sub(r"\s+", "", body[k:j])
            recv = re.sub(r"^.*?((?:self|slot|base_time)\.[A-Za-z_0-9.]+)$", r"\1", recv)
            # arguments: balanced parentheses
            depth, e = 1, m.end()
            while e < len(body) and depth:
                if body[e] == "(":
                    depth += 1
                elif body[e] == ")":
                    depth -= 1
                e += 1
            args = body[m.end():e - 1]
            om = re.search(r"Ordering::(\w+)", args)
            if not om:
                raise TranslateError(f"{what}: atomic {m.group('op')} on {recv} without an explicit Ordering")
            toks.append((m.group("op"), recv, om.group(1)))
        elif m.group("lock"):
            toks.append(("lockop", re.sub(r"[.()\s]", "", m.group("lock")), ""))
        elif m.group("call"):
            toks.append(("call", re.sub(r"[(\s]", "", m.group("call")), ""))
        elif m.group("kw"):
            toks.append(("kw", m.group("kw"), ""))
    return toks


def translate_orderings():
    src = read("vouched_time/src/atomic_base_time.rs")
    # cut the test module off
    cut = src.find("#[cfg(test)]")
    # keep everything before the first test item
    tm = re.search(r"\n#\[test\]|\n#\[cfg\(test\)\]", src)
    if tm:
        src = src[:tm.start()]
    fns = {}
    for m in re.finditer(r"\bfn\s+([a-z_0-9]+)\s*(?:<[^>]*>)?\s*\(", src):
        name = m.group(1)
        # body
        k = m.end()
        depth = 1
        while depth and k < len(src):
            if src[k] == "(":
                depth += 1
            elif src[k] == ")":
                depth -= 1
            k += 1
        # find opening brace or ';'
        while k < len(src) and src[k] not in "{;":
            k += 1
        if k >= len(src) or src[k] == ";":
            continue
        i = k
        depth, j = 0, i
        while j < len(src):
            if src[j] == "{":
                depth += 1
            elif src[j] == "}":
                depth -= 1
                if depth == 0:
                    break
            j += 1
        body = src[i + 1:j]
        key = name
        n = 2
        while key in fns:
            key = f"{name}_{n}"
            n += 1
        fns[key] = access_list(body, name)
    if not fns:
        raise TranslateError("atomic_base_time.rs: no functions found")
    return fns


def orderings_v(fns):
    L = ["(* GENERATED by lib/translate.py from vouched_time/src/atomic_base_time.rs -- never committed *)",
         "From Coq Require Import List String.", "Import ListNotations.", "Open Scope string_scope.", "",
         "Inductive tok := ",
         "| Load (field ordering : string)", "| Store (field ordering : string)",
         "| LockOp (name : string)", "| Call (name : string)", "| Kw (name : string).", ""]
    for name, toks in fns.items():
        items = []
        for kind, a, b in toks:
            if kind == "load":
                items.append(f'Load "{a}" "{b}"')
            elif kind == "store":
                items.append(f'Store "{a}" "{b}"')
            elif kind == "lockop":
                items.append(f'LockOp "{a}"')
            elif kind == "call":
                items.append(f'Call "{a}"')
            else:
                items.append(f'Kw "{a}"')
        L.append(f"Definition fn_{name} : list tok := [" + "; ".join(items) + "].")
    L.append("")
    L.append("Definition all_fns : list (string * list tok) := [" +
             "; ".join(f'("{n}", fn_{n})' for n in fns) + "].")
    L.append("")
    return "\n".join(L)


def write_if_changed(path, text):
    try:
        with open(path) as f:
            if f.read() == text:
                return False
    except OSError:
        pass
    os.makedirs(os.path.dirname(path), exist_ok=True)
    with open(path + ".tmp", "w") as f:
        f.write(text)
    os.replace(path + ".tmp", path)
    return True


def run(gen_dir):
    """Regenerate everything; returns (params dict, list of changed files). Raises TranslateError."""
    changed = []
    p = translate_params()
    if write_if_changed(os.path.join(gen_dir, "Params.v"), params_v(p)):
        changed.append("Params.v")
    o = translate_orderings()
    if write_if_changed(os.path.join(gen_dir, "Orderings.v"), orderings_v(o)):
        changed.append("Orderings.v")
    return p, o, changed


if __name__ == "__main__":
    d = sys.argv[1] if len(sys.argv) > 1 else os.path.join(os.path.dirname(os.path.dirname(os.path.abspath(__file__))), "coq", "gen")
    p, o, ch = run(d)
    print(p)
    for k, v in o.items():
        print(k, v)
    print("changed:", ch)
