"""Family `hmem` (C05): memory liveness of what Encoder / Decoder expose, with anchored inputs whose
caller-side arena is dropped right after the call.  Implementation-side predicate only (NO_MODEL): the
theorem it supports is the anchor protocol of iovec/Anchors.v (C05_core, C05_anchored_window); whether the
addresses handed out are live memory cannot be expressed in Gallina and is observed through hook H2's
registry of live chunks.  Case lines are those of family `hcobs`."""
import fam_hcobs
from core import hexs

NAME = "hmem"
NO_MODEL = True
FIELDS = ["flags, one per check (after every operation, after errors, after finish): 1 = every slice exposed lies in a live "
          "arena chunk or a harness-owned buffer and the bytes seen so far are unchanged", "number of checks"]
PREDICATE_COMPLETE = True


def view(pid, case, obs):
    return []


def cross_checks(pid, case, impl, model):
    if not impl or len(impl) < 2:
        return "implementation: malformed observation"
    flags = impl[0]
    if -99 in flags:
        return "implementation: panic during the history"
    bad = [i for i, f in enumerate(flags) if f != 1]
    if bad:
        return "implementation: check #%d of %d: a slice handed out is not in live memory (or its bytes changed)" % (bad[0], len(flags))
    return None


def nontrivial(case, obs):
    return " a:" in case or " r:" in case


def stats(cases, obs):
    st = {"checks": 0, "anchored_pieces": 0, "malformed_decoder_inputs": 0, "production_limits": 0}
    for c, o in zip(cases, obs):
        st["checks"] += len(o[0]) if o else 0
        st["anchored_pieces"] += c.count(" a:") + c.count(" r:")
        st["malformed_decoder_inputs"] += 1 if " X" in c else 0
        st["production_limits"] += 1 if c.startswith("P P") else 0
    return st


def directed():
    out = []
    pmi, pms = fam_hcobs.prod()
    body = [(i % 80) + 1 for i in range(pmi)]
    for bad in ([0xFF], [0xFD], [0xFD, 0x00], [0x00, 0xFD], [0x00, 0xFF], [253], [5, 0, 1, 2]):
        e = [pmi] + body + bad
        out.append(f"P P E D X{hexs(e)} a:{len(e)}")
        out.append(f"P P E D X{hexs(e)} a:{pmi + 1} a:{len(bad)}")
        out.append(f"P P E D X{hexs(e)} a:100 ds:1 a:{len(e)}")
        out.append(f"P P E D X{hexs(e)} b:3 a:{len(e)} db:7")
    # a large borrowed chunk inside a later chunk, then garbage
    e = [2, 1, 1] + [100, 1] + [(i % 70) + 3 for i in range(353)] + [0xFE, 0xFE]
    out.append(f"P P E D X{hexs(e)} a:{len(e)}")
    out.append(f"P P E D X{hexs(e)} a:200 a:{len(e)}")
    return out


def generate(rng, n, tier, pid):
    out = directed()
    base = fam_hcobs.generate(rng, n, tier, pid)
    # the exhaustive tiny strings come first in the hcobs stream: keep a stride sample of them, all the rest
    nex = next((i for i, l in enumerate(base) if l.startswith("P P") or " X" in l), len(base))
    stride = max(1, nex // max(1, n // 5))
    base = base[:nex:stride] + base[nex:]
    for line in base:
        t = line.split()
        d = t.index("D")
        for i in range(3, len(t)):
            if t[i][:2] in ("b:", "c:") and len(t[i]) > 2:
                if i > d and rng.chance(1, 2):
                    t[i] = "a:" + t[i][2:]
                elif i < d and t[i][2:] not in ("", "-") and rng.chance(1, 3):
                    t[i] = "a:" + t[i][2:]
        out.append(" ".join(t))
    return out


def shrink_candidates(line):
    return fam_hcobs.shrink_candidates(line)


def explain(bad):
    return "run `wp_harness hmem <file with the case line>`: the first flag that is not 1 is the failing check"
