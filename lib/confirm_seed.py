#!/usr/bin/env python3
"""Confirms a seeded change in its scratch worktree before it is kept under /verif/seeded/<id>/:
   with the patch: the workspace test suite passes and the demonstration fails;
   without it: the demonstration passes.
usage: confirm_seed.py <id> <worktree> <setup shell cmd> <demo shell cmd>   (commands run at the worktree root)"""
import json, os, shutil, subprocess, sys, time
VERIF = os.path.dirname(os.path.dirname(os.path.abspath(__file__)))
ENV = dict(os.environ, CARGO_NET_OFFLINE="true", RUST_BACKTRACE="0")


def sh(cmd, cwd, timeout=1800):
    r = subprocess.run(cmd, shell=True, cwd=cwd, env=ENV, capture_output=True, text=True, timeout=timeout)
    return r.returncode, (r.stdout + r.stderr)


def main():
    pid, wt, setup, demo = sys.argv[1:5]
    sd = os.path.join(wt, "SEEDED")
    rec = {"worktree": wt, "setup": setup, "demo": demo}
    assert sh("git status --porcelain --untracked-files=no", wt)[1].strip() == "", "worktree not clean"
    rc, out = sh("git apply SEEDED/patch.diff", wt)
    assert rc == 0, out
    t0 = time.time()
    rc, out = sh("cargo test --workspace --offline 2>&1 | grep -E '^test result|FAILED|panicked|error' ", wt)
    results = [l for l in out.splitlines() if l.startswith("test result")]
    passed = sum(int(l.split("ok. ")[1].split(" passed")[0]) for l in results if "ok. " in l)
    failed = [l for l in results if "FAILED" in l]
    rec["suite_with_change"] = {"passed": passed, "failed_lines": failed, "wall_s": round(time.time() - t0)}
    rc, out = sh(setup, wt)
    assert rc == 0, out
    rc1, out1 = sh(demo, wt)
    rec["demo_with_change"] = {"rc": rc1, "tail": out1[-600:]}
    sh("git checkout -- .", wt)
    rc2, out2 = sh(demo, wt)
    rec["demo_without_change"] = {"rc": rc2, "tail": out2[-300:]}
    sh("git clean -fdq -e SEEDED", wt)
    shutil.rmtree(os.path.join(wt, "target"), ignore_errors=True)
    ok = passed >= 122 and not failed and rc1 != 0 and rc2 == 0
    rec["confirmed"] = ok
    print(json.dumps(rec, indent=1)[:3000])
    if ok:
        dst = os.path.join(VERIF, "seeded", pid)
        if os.path.exists(dst):
            shutil.rmtree(dst)
        shutil.copytree(sd, dst)
        m = json.load(open(os.path.join(dst, "meta.json")))
        m["what_was_run_to_confirm"] = rec
        json.dump(m, open(os.path.join(dst, "meta.json"), "w"), indent=1)
        print("kept as", dst)
    return 0 if ok else 1


if __name__ == "__main__":
    sys.exit(main())
