"""Family `hint` (C10): ByteArena::find_hint_size(len, prev_capacity)."""
NAME = "hint"
RUNFILE = "RunHint"
PREAMBLE = ("From Coq Require Import NArith ZArith List. Import ListNotations. Open Scope N_scope.\n"
            "From WP Require Import run.RunHint.")
RUNNER = "run_hint"
FIELDS = ["[capacity hint] (99 = an assertion fired)"]
SHARD = 3000
UMAX = (1 << 64) - 1


def coq_term(line):
    a, b = line.split()
    return f"({a}, {b})"


def nontrivial(case, obs):
    a, b = map(int, case.split())
    return a < (1 << 20) and b < (1 << 20)


def stats(cases, obs):
    return {"below_cap": sum(1 for c in cases if nontrivial(c, None))}


def generate(rng, n, tier, pid):
    pts = [0, 1, 2, 4095, 4096, 4097, 8191, 8192, 8193, 65535, 65536, 65537, (1 << 20) - 1, 1 << 20, (1 << 20) + 1,
           (1 << 20) + 4095, (1 << 20) + 4096, 2000000, 1 << 32, UMAX - 4096, UMAX - 4095, UMAX - 1, UMAX]
    out = [f"{a} {b}" for a in pts for b in pts]
    while len(out) < n:
        a = rng.choice([rng.below(1 << 21), rng.below(9000), rng.choice(pts), rng.below(UMAX)])
        b = rng.choice([rng.below(1 << 21), rng.choice(pts), 1 << rng.range(12, 21), rng.below(UMAX)])
        out.append(f"{a} {b}")
    return out


def explain(bad):
    return {"spec": "hint >= len; below 1 MiB: prev < hint <= 1 MiB taken from the size sequence; at or above: len rounded up to 4 KiB"}
