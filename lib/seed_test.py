#!/usr/bin/env python3
"""Applies a seeded change to /repo, runs checks, records the outcome, restores /repo.
usage: seed_test.py <seeded dir name> <check id> [more check ids] [--tier quick]"""
import json, os, subprocess, sys, time
VERIF = os.path.dirname(os.path.dirname(os.path.abspath(__file__)))


def sh(cmd, **kw):
    return subprocess.run(cmd, capture_output=True, text=True, **kw)


def main():
    name = sys.argv[1]
    ids = [a for a in sys.argv[2:] if not a.startswith("--")]
    d = os.path.join(VERIF, "seeded", name)
    patch = os.path.join(d, "patch.diff")
    st = sh(["git", "-C", "/repo", "status", "--porcelain"]).stdout.strip()
    if st:
        print("refusing: /repo working tree is not clean:\n" + st)
        return 2
    r = sh(["git", "-C", "/repo", "apply", patch])
    if r.returncode != 0:
        print("patch does not apply:", r.stderr)
        return 2
    results = {}
    # a seeded run must not leave its (violation) evidence behind: evidence/<id>.json is restored afterwards
    saved = {}
    for pid in ids:
        ep = os.path.join(VERIF, "evidence", pid + ".json")
        saved[pid] = open(ep).read() if os.path.exists(ep) else None
    try:
        for pid in ids:
            t0 = time.time()
            r = sh([os.path.join(VERIF, "check"), pid, "--tier", "quick"], cwd=VERIF)
            lines = [l for l in r.stdout.splitlines() if l.startswith(("VIOLATION", "OK ", "KNOWN-FINDING", "# broken"))]
            rep = None
            for l in lines:
                if l.startswith("VIOLATION") and "replay=" in l:
                    rp = l.split("replay=")[1].split()[0]
                    try:
                        rep = json.load(open(rp))
                    except Exception:
                        rep = None
            results[pid] = {"rc": r.returncode, "lines": lines, "wall_s": round(time.time() - t0, 1),
                            "replay_case": (rep or {}).get("case"), "predicate_failed": (rep or {}).get("predicate_failed"),
                            "broken": [b.get("theorem") for b in ((rep or {}).get("proof") or {}).get("broken", [])] or
                                      [b.get("theorem") for b in (rep or {}).get("broken", [])]}
            print(pid, r.returncode, lines[-1] if lines else r.stdout[-300:])
    finally:
        for pid, txt in saved.items():
            if txt is not None:
                open(os.path.join(VERIF, "evidence", pid + ".json"), "w").write(txt)
        sh(["git", "-C", "/repo", "checkout", "--", "."])
        sh(["git", "-C", "/repo", "clean", "-fdq", "--", "hcobs", "owning_iovec", "rough_tlv", "sliding_deque", "vouched_time"])
    caught = [p for p, v in results.items() if v["rc"] != 0]
    oc_path = os.path.join(d, "outcome.json")
    oc = json.load(open(oc_path)) if os.path.exists(oc_path) else {}
    oc.setdefault("runs", {}).update(results)
    oc["caught_by"] = ", ".join(sorted(p for p, v in oc["runs"].items() if v["rc"] != 0)) or "MISSED"
    hows = []
    for p, v in sorted(oc["runs"].items()):
        if v["rc"] != 0:
            hows.append("%s: %s%s" % (p, (v.get("predicate_failed") or "model/implementation difference" if v.get("replay_case") else "no-failing-input-found"),
                                      (" [broken: %s]" % ",".join(x for x in v["broken"] if x)) if v.get("broken") else ""))
    oc["how"] = " ; ".join(hows)
    json.dump(oc, open(oc_path, "w"), indent=1)
    print("caught_by:", oc["caught_by"])
    return 0


if __name__ == "__main__":
    sys.exit(main())
