"""Family `smem` (C05): memory liveness of what StreamReader exposes (the partially decoded record shown
to the judge on every call, every returned record kept until after the reader is gone).  Implementation-
side predicate only (NO_MODEL), see fam_hmem.  Case lines are those of family `reader`."""
import fam_reader

NAME = "smem"
NO_MODEL = True
FIELDS = ["flags, one per check (every judge call, every returned record, every kept record at the end)", "number of checks"]
PREDICATE_COMPLETE = True


def view(pid, case, obs):
    return []


def cross_checks(pid, case, impl, model):
    if not impl or len(impl) < 2:
        return "implementation: malformed observation"
    flags = impl[0]
    if -99 in flags:
        return "implementation: panic during the run"
    bad = [i for i, f in enumerate(flags) if f != 1]
    if bad:
        return "implementation: check #%d of %d: a slice handed out by StreamReader is not in live memory (or its bytes changed)" % (bad[0], len(flags))
    return None


def nontrivial(case, obs):
    return bool(obs) and len(obs[0]) >= 3


def stats(cases, obs):
    return {"checks": sum(len(o[0]) for o in obs if o)}


def generate(rng, n, tier, pid):
    return fam_reader.generate(rng, n, tier, pid)


def shrink_candidates(line):
    return fam_reader.shrink_candidates(line) if hasattr(fam_reader, "shrink_candidates") else []


def explain(bad):
    return "run `wp_harness smem <file with the case line>`: the first flag that is not 1 is the failing check"
