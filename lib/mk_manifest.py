#!/usr/bin/env python3
"""Regenerate MANIFEST.json from lib/registry.py (single source of truth)."""
import json, os, sys
sys.path.insert(0, os.path.dirname(os.path.abspath(__file__)))
import registry

VERIF = os.path.dirname(os.path.dirname(os.path.abspath(__file__)))
ids = [json.loads(l)["id"] for l in open(os.path.join(VERIF, "properties.jsonl"))]
checks, na = [], []
for pid in ids:
    P = registry.PROPS.get(pid)
    if not P or P.get("unclaimed"):
        na.append({"property_id": pid, "reason": (P or {}).get("unclaimed") or registry.NOT_YET.get(pid, "check not built yet in this round; see DESIGN.md section 10")})
        continue
    checks.append({
        "property_id": pid,
        "quick_cmd": f"./check {pid} --tier quick",
        "thorough_cmd": f"./check {pid} --tier thorough",
        "evidence_file": f"/verif/evidence/{pid}.json",
        "replay_cmd_template": f"./check {pid} --replay {{path}}",
        "engine": "coq-proofs+correspondence",
        "level_claimed": {"category": "proof", "text": P["level_text"], "design_ref": P.get("design_ref", f"DESIGN.md section 7, {pid}")},
        "level_note": P["level_note"],
        "technique": P.get("technique", "Coq theorems over an executable Gallina model + constants translated from the source + differential correspondence (model evaluated in Coq vs. the real crates)"),
    })
man = {
    "version": 1,
    "setup_cmd": "./check --setup",
    "hooks": {
        "guard": "woodpile_verif",
        "enable": "RUSTFLAGS=\"--cfg woodpile_verif\" (set by ./check when it builds harness/ against /repo)",
        "baseline_off_cmd": "cd /repo && cargo test --workspace --no-fail-fast --offline",
        "source_commits": registry.HOOK_COMMITS,
        "add_only": True,
    },
    "engines": [
        {"name": "coq-proofs", "path": "coq/", "serves_properties": [c["property_id"] for c in checks],
         "kind_free_text": "Coq 8.16.1 development: faithful models, specifications, property theorems (coq/theories/props), generated constants (coq/gen)"},
        {"name": "translator", "path": "lib/translate.py", "serves_properties": [c["property_id"] for c in checks],
         "kind_free_text": "reads constants / parameter records / atomic access sequences from /repo into coq/gen/*.v on every run"},
        {"name": "harness", "path": "harness/", "serves_properties": [c["property_id"] for c in checks],
         "kind_free_text": "Rust crate with path dependencies on /repo's crates; prints one canonical observation per case"},
        {"name": "check", "path": "check", "serves_properties": [c["property_id"] for c in checks],
         "kind_free_text": "python3 driver: translate, make, gates, Print Assumptions, cargo build, case generation, model evaluation inside coqc, comparison, evidence"},
    ],
    "checks": checks,
    "not_applicable": na,
    "notes": "Technique: machine-checked proof in Coq 8.16.1. Fixed defects are listed in known_findings.txt (fixed: entries suppress nothing).",
}
json.dump(man, open(os.path.join(VERIF, "MANIFEST.json"), "w"), indent=1)
print("claimed", len(checks), "not_applicable", len(na))
