"""Family `sod` (C16): SortedDeque histories, both item conventions, both backings."""
import itertools
from core import gz, glist

NAME = "sod"
RUNFILE = "RunSod"
PREAMBLE = ("From Coq Require Import ZArith List. Import ListNotations. Open Scope Z_scope.\n"
            "From WP Require Import deque.Sorted run.RunSod.")
RUNNER = "run_sod"
FIELDS = ["per op: result", "per op: lookups of keys 0..8 (-1 absent)"]
SHARD = 1200


def parse(line):
    t = line.split()
    return t[0], t[1], t[2:]


def coq_op(o):
    p = o.split(":")
    k = p[0]
    if k == "pu":
        v = "None" if p[2] == "x" else f"Some {p[2]}"
        return f"Push ({p[1]}, {v})"
    return {"fi": "Find " + (p[1] if len(p) > 1 else ""), "rm": "Remove " + (p[1] if len(p) > 1 else ""), "pf": "PopFirst", "pl": "PopLast",
            "cl": "Clear", "it": "Iter", "fr": "First", "la": "Last", "ie": "IsEmpty"}[k]


def coq_term(line):
    return glist([coq_op(o) for o in parse(line)[2]])


def nontrivial(case, obs):
    # non-trivial: a removal hit a live key somewhere other than a no-op, i.e. some rm returned an item
    ops = parse(case)[2]
    for i, o in enumerate(ops):
        if o.startswith("rm") and 2 * i < len(obs) and obs[2 * i] and obs[2 * i][0] == 1:
            return True
    return False


def stats(cases, obs):
    st = {"ops": 0, "removals_hit": 0, "panics": 0, "item_convention": 0, "small_backing": 0}
    for c, o in zip(cases, obs):
        conv, back, ops = parse(c)
        st["ops"] += len(ops)
        st["item_convention"] += conv == "item"
        st["small_backing"] += back == "small"
        st["panics"] += bool(o) and o[-1] == [99]
        for i, op in enumerate(ops):
            if op.startswith("rm") and 2 * i < len(o) and o[2 * i] and o[2 * i][0] == 1:
                st["removals_hit"] += 1
    return st


def generate(rng, n, tier, pid):
    out = []
    # exhaustive: prefix of ascending pushes (4 or 5 keys), then every sequence of L ops over the alphabet
    L = 4 if tier == "quick" else 5
    k = 0
    for npush in (4, 5):
        keys = list(range(1, npush + 1))
        alpha = [f"rm:{x}" for x in keys] + ["pf", "pl", "pu:next", "pu:low", "cl"]
        for ops in itertools.product(alpha, repeat=L):
            if tier == "quick" and npush == 5 and k % 3:
                k += 1
                continue
            nxt = npush + 1
            body = []
            for o in ops:
                if o == "pu:next":
                    body.append(f"pu:{nxt}:{nxt * 10}")
                    nxt += 1
                elif o == "pu:low":
                    body.append(f"pu:{max(1, nxt - 2)}:7")   # may or may not be above the last: panics iff not
                else:
                    body.append(o)
            conv = "pair" if k % 2 == 0 else "item"
            back = "vec" if (k // 2) % 2 == 0 else "small"
            k += 1
            out.append(f"{conv} {back} " + " ".join([f"pu:{x}:{x * 10}" for x in keys] + body + ["it", "fr", "la", "ie"]))
    for _ in range(n):
        ln = rng.choice([6, 15, 40, 120])
        nxt = rng.below(3)
        ops = []
        for _ in range(ln):
            c = rng.weighted([(8, "pu"), (1, "pux"), (1, "pubad"), (4, "rm"), (3, "fi"), (2, "pf"), (2, "pl"), (1, "cl"), (1, "it"), (1, "fr"), (1, "la"), (1, "ie")])
            if c == "pu" and nxt <= 8:
                ops.append(f"pu:{nxt}:{100 + rng.below(50)}")
                nxt += 1 + rng.below(2)
            elif c == "pux":
                ops.append(f"pu:{rng.below(9)}:x")
            elif c == "pubad" and rng.chance(1, 4):
                ops.append(f"pu:{rng.below(9)}:5")
            elif c == "rm":
                ops.append(f"rm:{rng.below(9)}")
            elif c == "fi":
                ops.append(f"fi:{rng.below(10)}")
            elif c == "cl":
                ops.append("cl")
                if rng.chance(1, 2):
                    nxt = rng.below(3)
            elif c in ("pf", "pl", "it", "fr", "la", "ie"):
                ops.append(c)
        out.append(f"{rng.choice(['pair', 'item'])} {rng.choice(['vec', 'small'])} " + " ".join(ops))
    return out


def shrink_candidates(line):
    conv, back, ops = parse(line)
    head = [conv, back]
    c = [" ".join(head + ops[:i] + ops[i + 1:]) for i in range(len(ops))]
    if len(ops) > 1:
        c.append(" ".join(head + ops[:len(ops) // 2]))
    return c


def explain(bad):
    return {"spec": "ordered map with append-only insertion (sstep): find/remove/pop/iter/first/last as on a sorted association list of live items; push of a key <= last panics; push of an erased item is a no-op",
            "fields": "2 per op: result / lookups of keys 0..8"}
