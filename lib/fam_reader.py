"""Family `reader` (C06): StreamReader over streams of valid, torn and corrupted records."""
import itertools
from core import gbytes, gbytes_runs, hexs
import fam_hcobs, fam_chunk, translate

NAME = "reader"
RUNFILE = "RunStream"
PREAMBLE = ("From Coq Require Import NArith ZArith List. Import ListNotations. Open Scope N_scope.\n"
            "From WP Require Import run.RunStream run.Hex.")
RUNNER = "run_reader"
FIELDS = ["one field per returned record: [range start, range end, decoded bytes...]", "last: [stream stays ended, last_sentinel_offset]"]
SHARD = 500
FE, FD = 0xFE, 0xFD
U64MAX = (1 << 64) - 1
_DBS = None


def dbs():
    global _DBS
    if _DBS is None:
        _DBS = translate.translate_params()["DEFAULT_BLOCK_SIZE"]
    return _DBS


def parse(line):
    t = line.split()
    bs = dbs() if t[0] == "-" else int(t[0])
    mx = U64MAX if t[1] == "-" else int(t[1])
    lim = U64MAX if t[2] == "-" else int(t[2])
    return bs, mx, lim, (list(bytes.fromhex(t[3])) if t[3] != "-" else []), t[4:]


def coq_term(line):
    bs, mx, lim, s, sched = parse(line)
    mi, ms = fam_hcobs.prod()
    return f"({mi}, {ms}, {bs}, {mx}, {lim}, {gbytes_runs(s)})"


def view(pid, case, obs):
    # binding: the records (ranges and contents) and that the stream stays ended; last_sentinel_offset is advisory
    if not obs:
        return obs
    return [obs[:-1], obs[-1][:1]]


def advisory_diff(case, impl, model):
    return impl != model


def nontrivial(case, obs):
    return len(obs) >= 3


def stats(cases, obs):
    st = {"records": 0, "no_record": 0}
    for c, o in zip(cases, obs):
        st["records"] += max(0, len(o) - 1)
        st["no_record"] += len(o) <= 1
        t = c.split()
        if t[2] != "-":
            st["with_limit"] = st.get("with_limit", 0) + 1
        if t[1] != "-":
            st["with_max"] = st.get("with_max", 0) + 1
    return st


def record(rng):
    mi, ms = fam_hcobs.prod()
    ln = rng.weighted([(3, rng.below(6)), (2, rng.below(40)), (1, rng.range(248, 260))])
    m = fam_hcobs.rand_msg(rng, ln, rng.below(3))
    return fam_hcobs.ref_encode(m, mi, ms)


def stream(rng):
    s = []
    for _ in range(rng.below(7)):
        k = rng.below(10)
        if k < 5:
            s += record(rng)
        elif k == 5:
            r = record(rng)
            s += r[:rng.below(len(r) + 1)]                  # torn write
        elif k == 6:
            r = record(rng)
            if r:
                r[rng.below(len(r))] = rng.below(256)       # corruption
            s += r
        elif k == 7:
            s += [rng.below(256) for _ in range(rng.below(8))]  # garbage
        elif k == 8:
            s += [FE] if rng.chance(1, 2) else [FD]
        for _ in range(rng.weighted([(1, 0), (6, 1), (2, 2), (1, 3)])):
            s += [FE, FD]
    if rng.chance(1, 6):
        s = s[:rng.below(len(s) + 1)]                       # the log is cut at an arbitrary byte
    return s


def generate(rng, n, tier, pid):
    out = []
    # a fixed log truncated at every byte, three block sizes
    mi, ms = fam_hcobs.prod()
    log = []
    for m in ([0x61], [0x62, 0x63], [FE, FD, 1], [], [7] * 5):
        log += fam_hcobs.ref_encode(m, mi, ms) + [FE, FD]
    for k in range(len(log) + 1):
        for bs in (0, 1, 3):
            out.append(f"{bs} - - {hexs(log[:k])}")
    # exhaustive small alphabet: header bytes 0,1 with delimiters
    L = 5 if tier == "quick" else 7
    i = 0
    for ln in range(0, L + 1):
        for s in itertools.product([FE, FD, 0, 1], repeat=ln):
            i += 1
            if tier == "quick" and ln >= 5 and i % 2:
                continue
            out.append(f"{i % 4} {'-' if i % 3 else i % 2} {'-' if i % 5 else i % (ln + 2)} {hexs(list(s))} " + " ".join(["s:1", "i"] * (i % 2)))
    # long logs: the reader's own arena crosses chunk boundaries (4 KiB, then growing) at many alignments
    # relative to carried FE bytes, record ends and block refills
    for j in range(max(6, n // 400)):
        target = rng.range(4200, 4200 + 2500 * (1 + j % 4))
        s = []
        while len(s) < target:
            s += stream(rng)
        bs = str([1, 2, 3, 5, 7, 64][j % 6])
        out.append(f"{bs} - - {hexs(s)}")
    # directed arena alignments: a filler that leaves 0..8 bytes of room in the reader's first 4 KiB chunk
    # when a carried FE must be completed by the next refill
    enc = fam_hcobs.ref_encode([0x62, 0x63], mi, ms)
    for bs in (1, 2, 3):
        for f in range(4088, 4100):
            # first byte FF: not a header, so the decoder stops at once and the arena only serves refills
            out.append(f"{bs} - - {hexs([0xFF if f % 4 else 0x61] + [0x61] * (f - 1) + [FE, FD] + enc + [FE, FD] + enc)}")
    for _ in range(n):
        s = stream(rng)
        bs = rng.weighted([(3, str(rng.below(6))), (2, str(rng.range(6, 70))), (1, "4096"), (1, "-")])
        mx = rng.weighted([(3, "-"), (3, str(rng.below(9))), (1, "0"), (1, str(rng.range(9, 300)))])
        lim = rng.weighted([(3, "-"), (3, str(rng.below(len(s) + 2))), (1, "0")])
        out.append(f"{bs} {mx} {lim} {hexs(s)} " + " ".join(fam_chunk.rand_sched(rng)))
    return out


def shrink_candidates(line):
    t = line.split()
    c = [" ".join(t[:i] + t[i + 1:]) for i in range(4, len(t))]
    h = t[3]
    if h != "-" and len(h) >= 4:
        for i in range(0, len(h), 2):
            c.append(" ".join(t[:3] + [(h[:i] + h[i + 2:]) or "-"] + t[4:]))
            if len(c) > 60:
                break
    return c


def explain(bad):
    return {"spec": "successive calls return, in order, (decoded contents, byte range) of exactly the maximal FE FD-free segments that are valid HCOBS encodings of at most max bytes, stopping at the first segment starting at or after limit; then None forever"}
