"""Family `genc` (C01 C03 C05 C09): the Encoder (hook ParamEncoder: caller-chosen chunk limits) and its OwningIovec at
memory level against hcobs/GeoEnc.v over iovec/Geo.v: after construction and after every call (encode borrowed, encode_copy,
read_n + encode_anchored, consume, Read, finish) the encoder state (max, cur, mid) and the complete structural state of the
iovec -- slice lengths and pointers (chunk creation number, offset), anchors (count, chunk), allocation cache, pending
backrefs, bytes -- every return value and the live chunk / byte counters are compared.  Nothing is taken from the
implementation's observation."""
from core import gbytes_runs as gbytes, glist, hexs
from fam_iovw import hash_bytes, hexb

NAME = "genc"
RUNFILE = "RunGenc"
PREAMBLE = ("From Coq Require Import NArith ZArith List. Import ListNotations. Open Scope N_scope.\n"
            "From WP Require Import iovec.Geo hcobs.GeoEnc run.RunGenc run.Hex.")
RUNNER = "run_genc"
FIELDS = ["per step (construction first): [ok, return value...]", "encoder state [max, cur, mid] ([] after finish)",
          "the seven iovec fields of family geo", "[live chunks, live bytes, every slice in live memory]"]
SHARD = 60
BLOCK = 10
FE, FD = 0xFE, 0xFD


def coq_term(line):
    t = line.split()
    ops = []
    for tok in t[2:]:
        p = tok.split(":")
        k = p[0]
        if k == "e":
            ops.append(f"XOp (GEBorrow {gbytes(hexb(p[1]))})")
        elif k == "c":
            ops.append(f"XOp (GECopy {gbytes(hexb(p[1]))})")
        elif k == "r":
            ops.append(f"XOp (GERead {gbytes(hexb(p[1]))} {p[2]})")
        elif k == "cs":
            ops.append(f"XOp (GEConsume {p[1]})")
        elif k == "rd":
            ops.append(f"XOp (GERd {p[1]})")
        elif k == "fin":
            ops.append("XFin")
        else:
            raise ValueError(k)
    return f"({t[0]}, {t[1]}, {glist(ops)})"


def blocks(obs):
    out, k = [], 0
    while k < len(obs):
        if obs[k] == [99] or len(obs) - k < BLOCK:
            out.append(None)
            break
        out.append(obs[k:k + BLOCK])
        k += BLOCK
    return out


def canon(obs, is_model):
    out = []
    for b in blocks(obs):
        if b is None:
            out.append([99])
            break
        f = b[2:9]
        dig = f[2]          # both sides print the digest [length, s1, s2]
        out.append([b[0], b[1], [f[0], f[1], dig, f[3], f[4], f[5], f[6]], b[9][:2]])
    return out


def view_im(pid, case, obs, is_model):
    return canon(obs, is_model)


def cross_checks(pid, case, impl_obs, model_obs):
    for n, b in enumerate(blocks(impl_obs)):
        if b is None:
            break
        if len(b[9]) > 2 and b[9][2] != 1:
            return f"step {n}: a slice of the encoder's iovec points outside live memory"
        if -1 in b[5][1::2] or (b[7] and b[7][0] == -1):
            return f"step {n}: an anchor or the cache refers to a chunk that is not live"
    return None


def nontrivial(case, obs):
    return case.count(" e:") + case.count(" c:") + case.count(" r:") >= 2 and " fin" in case


def stats(cases, obs):
    st = {"ops": 0, "borrow": 0, "copy": 0, "read": 0, "finish": 0, "panics": 0, "borrowed_slices": 0, "chunks_max": 0, "prod_params": 0}
    for c, o in zip(cases, obs):
        t = c.split()
        st["ops"] += len(t) - 2
        st["prod_params"] += t[0] == "252"
        for tok in t[2:]:
            st["borrow"] += tok.startswith("e:")
            st["copy"] += tok.startswith("c:")
            st["read"] += tok.startswith("r:")
            st["finish"] += tok == "fin"
        for b in blocks(o):
            if b is None:
                st["panics"] += 1
                break
            st["borrowed_slices"] = max(st["borrowed_slices"], sum(1 for x in b[6][0::2] if x == 0 and b[3]))
            st["chunks_max"] = max([st["chunks_max"]] + b[6][0::2])
    return st


def rand_piece(rng, n):
    if n >= 1000:
        # long pieces are runs of equal bytes separated by short FE/FD-rich stretches (compact to write down)
        out = []
        while len(out) < n:
            out += [rng.below(256)] * rng.choice([300, 1000, 5000, 30000, 64007, 64008, 64009])
            out += [rng.choice([FE, FD, FE, FD, 7]) for _ in range(rng.below(6))]
        return out[:n]
    k = rng.below(4)
    if k == 0:
        return [rng.choice([FE, FD, 0]) for _ in range(n)]
    if k == 1:
        return [rng.choice([FE, FD, FE, FD, 1, 2, 3]) for _ in range(n)]
    if k == 2:
        b0 = rng.below(250)
        return [(b0 + j) % 250 for j in range(n)]
    return [rng.below(256) if rng.chance(9, 10) else rng.choice([FE, FD]) for _ in range(n)]


def generate(rng, n, tier, pid):
    out = []
    # directed: every piece over {FE, FD, 00} up to length 3 through each input method, tiny limits
    import itertools
    k = 0
    for ln in range(0, 4):
        for s in itertools.product([FE, FD, 0], repeat=ln):
            for m in ("e", "c", "r"):
                k += 1
                if tier == "quick" and k % 2:
                    continue
                mi, ms = [(1, 1), (2, 1), (2, 3), (3, 2)][k % 4]
                arg = hexs(list(s)) + (f":{ln + k % 3}" if m == "r" else "")
                out.append(f"{mi} {ms} {m}:{arg} {m}:{arg} fin rd:100")
    for _ in range(n):
        mi, ms = rng.weighted([(4, (rng.range(1, 5), rng.range(1, 5))), (2, (rng.range(5, 40), rng.range(5, 70))),
                               (3, (252, 64008))])
        toks = []
        big = (mi, ms) == (252, 64008)
        for _ in range(rng.choice([1, 2, 3, 5, 8, 12])):
            kind = rng.weighted([(4, "e"), (3, "c"), (3, "r"), (1, "cs"), (1, "rd")])
            if kind in ("e", "c", "r"):
                ln = rng.weighted([(5, rng.below(9)), (3, rng.range(9, 80)), (2 if big else 1, rng.range(80, 700)),
                                   (2 if big else 0, rng.range(3000, 9000)), (1 if big else 0, rng.range(60000, 70000))])
                d = rand_piece(rng, ln)
                if kind == "r":
                    count = ln + rng.weighted([(3, 0), (2, rng.range(1, 8)), (1, rng.choice([100, 4096]))])
                    toks.append(f"r:{hexs(d)}:{count}")
                else:
                    toks.append(f"{kind}:{hexs(d)}")
            elif kind == "cs":
                toks.append(f"cs:{rng.choice([0, 1, 2, 5, 100])}")
            else:
                toks.append(f"rd:{rng.choice([0, 1, 3, 50, 5000])}")
        if rng.chance(4, 5):
            toks.append("fin")
            toks.append(f"rd:{rng.choice([1, 7, 100000])}")
            if rng.chance(1, 2):
                toks.append("rd:100000")
        out.append(f"{mi} {ms} " + " ".join(toks))
    return out


def shrink_candidates(line):
    t = line.split()
    c = [" ".join(t[:i] + t[i + 1:]) for i in range(2, len(t))]
    for i in range(2, len(t)):
        p = t[i].split(":")
        if p[0] in ("e", "c", "r") and len(p[1]) >= 4 and p[1] != "-":
            for cut in (len(p[1]) // 4 * 2, 2):
                q = list(p)
                q[1] = p[1][cut:] or "-"
                if p[0] == "r":
                    q[2] = str(max(0, int(p[2]) - cut // 2))
                c.append(" ".join(t[:i] + [":".join(q)] + t[i + 1:]))
    return c[:60]


def semantic(case, obs, is_model):
    """Return values, codec state, total size, hole-freeness and bytes -- not slice pointers, anchors, cache."""
    out = []
    for b in canon(obs, is_model):
        if b == [99]:
            out.append(b)
            break
        o = b[2]
        out.append([b[0], b[1], None if o is None else [o[0][0], o[0][2], o[2]]])
    return out
