"""Family `tlvv` (C12): MessageView on untrusted bytes."""
import itertools
from core import gbytes, glist, hexs

NAME = "tlvv"
RUNFILE = "RunTlvv"
PREAMBLE = ("From Coq Require Import NArith ZArith List. Import ListNotations. Open Scope N_scope.\n"
            "From WP Require Import tlv.View run.RunTlvv.")
RUNNER = "run_tlvv"
FIELDS = ["view_new code (0 accepted, 1 impossible header, 2 truncated header, 3 offsets, 4 tags, 5 payload, 99 panic)",
          "len", "tags", "iter (tag, vlen, bytes)*", "then per probe two fields: ix -> get_value, get; tg -> find_tag index, find value"]
SHARD = 600
USIZE_MAX = (1 << 64) - 1


def parse(line):
    t = line.split()
    data = list(bytes.fromhex(t[0])) if t[0] != "-" else []
    probes = []
    for p in t[1:]:
        k, v = p.split(":")
        probes.append((k, int(v)))
    return data, probes


def coq_term_with_obs(line, obs):
    data, probes = parse(line)
    ps = []
    for k, (kind, v) in enumerate(probes):
        if kind == "ix":
            ps.append(f"Ix {v}")
        else:
            j = None
            idx = 4 + 2 * k
            if obs and obs[0] == [0] and idx < len(obs) and len(obs[idx]) == 1 and obs[idx][0] != 99:
                j = obs[idx][0]
            ps.append(f"Tg {v} " + (f"(Some {j})" if j is not None else "None"))
    return "(" + gbytes(data) + ", " + glist(ps) + ")"


def view(pid, case, obs):
    # which of the five rejection reasons is reported is advisory; accept / reject / panic is binding
    if obs and obs[0] and obs[0][0] in (1, 2, 3, 4, 5):
        return [[1]]
    return obs


def advisory_diff(case, impl, model):
    return impl != model


def nontrivial(case, obs):
    # non-trivial: accepted message with at least one pair
    return bool(obs) and obs[0] == [0] and len(obs) > 1 and obs[1] and obs[1][0] > 0


def stats(cases, obs):
    st = {}
    for c, o in zip(cases, obs):
        k = "code_%d" % (o[0][0] if o and o[0] else -1)
        st[k] = st.get(k, 0) + 1
        if o and o[0] == [0]:
            n = o[1][0]
            st["accepted_n_%s" % (n if n < 4 else "4+")] = st.get("accepted_n_%s" % (n if n < 4 else "4+"), 0) + 1
    return st


def le32(x):
    return [x & 255, (x >> 8) & 255, (x >> 16) & 255, (x >> 24) & 255]


def build(n_field, offs, tags, payload):
    d = le32(n_field)
    for o in offs:
        d += le32(o)
    for t in tags:
        d += le32(t)
    return d + list(payload)


def probes_for(n, tags, rng):
    ps = [f"ix:{i}" for i in range(0, min(n, 6) + 3)] + [f"ix:{USIZE_MAX}"]
    if n > 6:
        ps.append(f"ix:{n - 1}")
        ps.append(f"ix:{n}")
    tg = set(tags[:6]) | {0, 1, 2, 3, 7, (1 << 32) - 1}
    for t in tags[:4]:
        tg.add((t + 1) & 0xFFFFFFFF)
    for t in tags[-3:]:
        tg.add(t)
        tg.add((t - 1) & 0xFFFFFFFF)
    ps += [f"tg:{t}" for t in sorted({x & 0xFFFFFFFF for x in tg})]
    return " ".join(ps)


def _ascii_tag(a):
    return a[0] | (a[1] << 8) | (a[2] << 16) | (a[3] << 24)


# strictly increasing as u32 values, with every byte position varying
WIDE = sorted(set([0, 1, 2, 0xFE, 0xFF, 0x100, 0x101, 0x1FF, 0x200, 0xFF00, 0xFFFF, 0x10000, 0x10001, 0x100FF, 0x20000,
                   0xFF0000, 0xFFFFFF, 0x1000000, 0x1000001, 0x10000FF, 0x1010000, 0x2000000, 0x7FFFFFFF, 0x80000000,
                   0x80000001, 0xFEFFFFFF, 0xFF000000, 0xFFFFFFFE, 0xFFFFFFFF]
                  + [_ascii_tag(t) for t in (b"SIG\0", b"NONC", b"PATH", b"SREP", b"CERT", b"INDX", b"ROOT", b"MIDP", b"RADI",
                                             b"DELE", b"PUBK", b"MINT", b"MAXT", b"VER\0", b"SRV\0", b"ZZZZ", b"TYPE")]))


def structured(rng):
    n = rng.weighted([(2, 0), (4, 1), (5, 2), (4, 3), (3, 4), (1, 6), (1, 9)])
    lens = [rng.weighted([(3, 0), (3, 1), (2, 2), (2, 3), (1, 7)]) for _ in range(n)]
    offs, acc = [], 0
    for l in lens[:-1]:
        acc += l
        offs.append(acc)
    tags, t = [], rng.below(3)
    for _ in range(n):
        tags.append(t)
        t += rng.weighted([(2, 0), (5, 1), (1, 3)])
    if rng.chance(2, 5):
        # wide tags: the order of the little-endian u32 values differs from the byte-wise order of
        # their encodings (1 < 256 < 65536 numerically, the reverse byte-wise); real Roughtime tags included
        off = rng.below(len(WIDE))
        tags = [WIDE[min(off + t, len(WIDE) - 1)] for t in tags]
    payload = [rng.below(256) for _ in range(sum(lens))]
    n_field = n
    mut = rng.below(14)
    if mut == 0 and offs:
        i = rng.below(len(offs))
        offs[i] = max(0, offs[i] - 1 - rng.below(3))          # maybe decreasing
    elif mut == 1 and offs:
        offs[-1] = offs[-1] + 1 + rng.below(4) + (sum(lens) - offs[-1])  # last offset past the payload
    elif mut == 2 and len(tags) > 1:
        i = rng.below(len(tags) - 1)
        tags[i], tags[i + 1] = (tags[i + 1] + 1) & 0xFFFFFFFF, tags[i]        # decreasing tags
    elif mut == 3:
        payload += [rng.below(256) for _ in range(1 + rng.below(5))]  # trailing bytes (belong to the last value)
    elif mut == 4:
        n_field = rng.choice([n + 1, n + 2, 1 << 31, (1 << 32) - 1, (1 << 32) - 2, 1 << 29, (1 << 29) + 1, 1 << 30])
    elif mut == 5 and offs:
        offs[rng.below(len(offs))] = rng.choice([(1 << 32) - 1, 1 << 31, 1 << 24])
    elif mut == 6 and n > 0:
        n_field = n - 1
    elif mut == 7 and offs:
        offs = [offs[0]] * len(offs)                             # equal offsets (empty values)
    elif mut == 8 and tags:
        tags = [tags[0]] * len(tags)                             # all tags equal
    d = build(n_field, offs, tags, payload)
    if mut == 9 and d:
        d = d[:rng.below(len(d) + 1)]                            # truncation
    return d, n_field if n_field < 12 else 3, tags


def generate(rng, n, tier, pid):
    out = []
    # truncation of one valid 3-pair message at every length, and of a 1-pair one
    base = build(3, [2, 2], [5, 5, 9], [1, 2, 3, 4, 5])
    for k in range(len(base) + 1):
        out.append(hexs(base[:k]) + " " + probes_for(3, [5, 5, 9], rng))
    # exhaustive small: all strings of word-aligned headers over a tiny alphabet
    alpha = [0, 1, 2, 255]
    count_words = 0
    for nf in (0, 1, 2):
        for body in itertools.product([0, 1, 2], repeat=2 * nf - 1 if nf else 0):
            for tail in ([], [7], [7, 8], [7, 8, 9]):
                d = le32(nf)
                for w in body:
                    d += le32(w)
                d += tail
                out.append(hexs(d) + " " + probes_for(nf, list(body[nf - 1:]) if nf else [], rng))
    for _ in range(n):
        if rng.chance(1, 8):
            ln = rng.below(24)
            d = [rng.choice(alpha) if rng.chance(3, 4) else rng.below(256) for _ in range(ln)]
            nf, tags = (d[0] if d else 0) % 5, []
        else:
            d, nf, tags = structured(rng)
        out.append(hexs(d) + " " + probes_for(nf, tags, rng))
    return out


def shrink_candidates(line):
    t = line.split()
    data = t[0]
    c = []
    for i in range(1, len(t)):
        c.append(" ".join(t[:i] + t[i + 1:]))
    if data != "-" and len(data) >= 2:
        c.append(" ".join([data[:-2] or "-"] + t[1:]))
    return c


def explain(bad):
    return {"spec": "new accepts iff |d|>=4, 8N<=|d|, offsets and tags non-decreasing, 8N+last_offset<=|d|; values tile the bytes after the header; get/iter/tags agree; index>=N yields nothing; find returns a value stored under that tag"}
