"""Family `nfs` (C19): histories of nfs_voucher calls, one forked process per history.

Case grammar: see harness/src/nfs.rs.  The model (RunNfs.run_nfs) gets the same ops; the refresh
decision of the calls without an explicit `now` (wall clock and a 100 ms rate limit) is read off
the implementation's observation (did it consume a stat), as are the stats of the real-filesystem ops."""
from core import gz

NAME = "nfs"
RUNFILE = "RunNfs"
PREAMBLE = ("From Coq Require Import ZArith NArith List. Import ListNotations. Open Scope N_scope.\n"
            "From WP Require Import time.Nfs run.RunNfs.")
RUNNER = "run_nfs"
FIELDS = ["one field per op: [code (0 Ok(Some) / 1 Ok(None) / 2 Err / 3 Ok(()) / 9 panic), t, voucher as t+K or -1, "
          "base time after the op, number of trusted devices, (implementation only) stats consumed, dev, ctime, nsec seen]"]
SHARD = 400
PREDICATE_COMPLETE = True
PER_PROFILE_MODEL = True   # refresh decisions and real stats are read off each run
K = 1000003
U64MAX = (1 << 64) - 1
NOW_MIN = -377705116800 * 10**9
NOW_MAX = 253402300799 * 10**9 + 999999999
LEEWAY = 1993


def millis_of(c, n):
    a = min((c % (1 << 64)) * 1000, U64MAX)
    return min(a + (n % (1 << 64)) // 1000000, U64MAX)


def parse_stat(s):
    if s == "e":
        return None
    d, c, n = s.split(":")
    return int(d), int(c), int(n)


def parse(line):
    ops = []
    for o in line.split(";"):
        t = o.split()
        if not t:
            continue
        if t[0] in ("at", "ob", "mo", "sc"):
            ops.append((t[0], None, [parse_stat(x) for x in t[1:]]))
        elif t[0] == "gb":
            ops.append(("gb", int(t[1]), [parse_stat(x) for x in t[2:]]))
        elif t[0] == "gbr":
            ops.append(("gbr", int(t[1]), []))
        elif t[0] == "obr":
            ops.append(("obr", int(t[1]), []))
        else:
            ops.append((t[0], None, []))
    return ops


def cstat(s):
    if s is None:
        return "StatErr"
    return f"(StatOk {s[0]} ({gz(s[1])}) ({gz(s[2])}))"


def seen_stat(o):
    return (o[6], o[7], o[8]) if len(o) >= 9 else None


def model_ops(case, impl_obs):
    """[(model op term or None for zz)], aligned with the case's ops as far as the implementation went."""
    out = []
    for op, o in zip(parse(case), impl_obs):
        k, a, st = op
        consumed = o[5] if len(o) > 5 else 0
        if k == "at":
            out.append(f"AddTrusted {cstat(st[0])} {cstat(st[1])}")
        elif k == "atr":
            s = seen_stat(o)
            out.append(f"AddTrusted {cstat(s)} {cstat(s)}")
        elif k == "ob":
            out.append(f"Observe {cstat(st[0])}")
        elif k == "obr":
            out.append(f"Observe {cstat(seen_stat(o))}")
        elif k == "mo":
            out.append(f"MaybeObserve {'true' if consumed else 'false'} {cstat(st[0])}")
        elif k == "sc":
            out.append(f"Scan {'true' if consumed else 'false'} [{'; '.join(cstat(x) for x in st)}]")
        elif k == "gb":
            out.append(f"GetBase ({gz(a)}) [{'; '.join(cstat(x) for x in st)}]")
        elif k == "gbr":
            s = seen_stat(o)
            out.append(f"GetBase ({gz(a)}) [{cstat(s) if s else ''}]")
        elif k == "gu":
            out.append("GetUnlocked")
        elif k == "zz":
            out.append(None)
    return out


def coq_term_with_obs(case, impl_obs):
    return "[" + "; ".join(x for x in model_ops(case, impl_obs) if x) + "]"


def view_im(pid, case, obs, is_model):
    if is_model:
        return [list(o[:5]) for o in obs]
    return [list(o[:5]) for o in obs if o and o[0] != 7]


def cross_checks(pid, case, impl, model):
    """The property on the implementation's trace, independently of the model."""
    fails = []
    ops = parse(case)
    base, ntr = 0, 0
    trusted = set()
    for n, (op, o) in enumerate(zip(ops, impl)):
        k, a, st = op
        if len(o) < 6:
            fails.append("op %d: malformed observation" % n)
            break
        code, t, v, b2, n2 = o[:5]
        if b2 < base:
            fails.append("op %d (%s): base time went back from %d to %d" % (n, k, base, b2))
        if code == 0 and v != t + K:
            fails.append("op %d (%s): returned pair (%d, .) fails the voucher check" % (n, k, t))
        stats = list(st)
        if k in ("atr", "obr", "gbr") and seen_stat(o):
            stats = [seen_stat(o)]
        registering = None
        if k == "at" and st and st[0] is not None:
            registering = st[0][0]
        if k == "atr" and seen_stat(o):
            registering = seen_stat(o)[0]
        if b2 != base:
            ok = any(s is not None and millis_of(s[1], s[2]) == b2 and (s[0] in trusted or s[0] == registering) for s in stats)
            if not ok:
                fails.append("op %d (%s): base time moved to %d without a presented file on a trusted device having that change-time" % (n, k, b2))
        if k in ("ob", "obr"):
            s = stats[0] if stats else None
            if s is not None and s[0] not in trusted:
                if code != 1 or b2 != base:
                    fails.append("op %d (%s): file on untrusted device %d was not ignored" % (n, k, s[0]))
        if k in ("mo",) and stats and stats[0] is not None and stats[0][0] not in trusted and b2 != base:
            fails.append("op %d (mo): file on untrusted device moved the base time" % n)
        if n2 != ntr:
            if not (k in ("at", "atr") and code == 3 and registering is not None and n2 == ntr + (0 if registering in trusted else 1)):
                fails.append("op %d (%s): trusted device count changed from %d to %d" % (n, k, ntr, n2))
        if k in ("at", "atr") and code == 3 and registering is not None:
            trusted.add(registering)
        if code == 9 and not (k == "at" and st[0] is not None and st[1] is not None and st[0][0] != st[1][0]):
            fails.append("op %d (%s): panicked" % (n, k))
        base, ntr = b2, n2
    if fails:
        return "implementation: " + "; ".join(fails[:3])
    return None


def advisory_diff(case, impl, model):
    return False


def nontrivial(case, obs):
    bases = {o[3] for o in obs if len(o) > 3}
    return len(bases) >= 2 and any(o[0] == 1 for o in obs if o)


def stats(cases, obs):
    st = {"ops": 0, "base_moves": 0, "stale_ignored": 0, "untrusted_ignored": 0, "errors": 0, "refreshes_wallclock": 0,
          "getbase_refresh": 0, "getbase_norefresh": 0, "panics": 0, "real_fs_ops": 0, "before_trust": 0}
    for c, ob in zip(cases, obs):
        base = 0
        for op, o in zip(parse(c), ob):
            if len(o) < 6:
                continue
            st["ops"] += 1
            if o[3] != base:
                st["base_moves"] += 1
            elif o[0] == 0 and op[0] in ("ob", "obr") and o[1] < base:
                st["stale_ignored"] += 1
            if o[0] == 1:
                st["untrusted_ignored"] += 1
            if o[0] == 2:
                st["errors"] += 1
            if o[0] == 9:
                st["panics"] += 1
            if op[0] in ("mo", "sc") and o[5] > 0:
                st["refreshes_wallclock"] += 1
            if op[0] == "gb":
                st["getbase_refresh" if o[5] > 0 or o[0] == 2 else "getbase_norefresh"] += 1
            if op[0] in ("atr", "obr", "gbr"):
                st["real_fs_ops"] += 1
            if o[4] == 0:
                st["before_trust"] += 1
            base = o[3]
    return st


# ---------------------------------------------------------------- generation
def fstat(s):
    return "e" if s is None else "%d:%d:%d" % s


class Sim:
    """Mirror of the model, used only to aim the generator (thresholds, stat counts)."""

    def __init__(self):
        self.trusted, self.base = set(), 0

    def upd(self, s, extra=None):
        if s is None:
            return "err"
        if s[0] not in self.trusted and s[0] != extra:
            return "none"
        t = millis_of(s[1], s[2])
        if t >= self.base:
            self.base = t
        return "some"

    def scan(self, stats):
        for s in stats[:len(self.trusted)]:
            if self.upd(s) == "some":
                return


DEVS = [7, 8, 9, 65024, U64MAX]
NSECS = [0, 0, 999999, 1000000, 5000000, 999999999, 123456789]


def gen_stat(rng, sim, clock, trusted_bias=True):
    if rng.below(12) == 0:
        return None
    tl = sorted(sim.trusted)
    if tl and trusted_bias and rng.below(4) != 0:
        dev = tl[rng.below(len(tl))]
    else:
        dev = DEVS[rng.below(len(DEVS))]
    r = rng.below(20)
    cur = sim.base // 1000
    if r < 8:
        c = cur + 1 + rng.below(50)
    elif r < 11:
        c = cur
    elif r < 15:
        c = max(0, cur - 1 - rng.below(50))
    elif r < 17:
        c = clock[0]
    elif r == 17:
        c = [(1 << 63) - 1, 18446744073709551, 18446744073709552, 1 << 62][rng.below(4)]
    elif r == 18:
        c = -1 - rng.below(3)
    else:
        c = rng.below(1 << 40)
    n = NSECS[rng.below(len(NSECS))]
    if rng.below(40) == 0:
        n = -1
    return (dev, c, n)


def gen_case(rng, tier):
    sim = Sim()
    clock = [1000 + rng.below(1000)]
    n = 3 + rng.below(14)
    ops = []
    huge = rng.below(6) == 0          # allow saturating / negative change-times in this history
    sleeps = 0

    def st(trusted_bias=True):
        s = gen_stat(rng, sim, clock, trusted_bias)
        if s is not None and not huge and (s[1] < 0 or s[1] > (1 << 41) or s[2] < 0):
            s = (s[0], clock[0] + rng.below(100), s[2] if s[2] >= 0 else 0)
        return s

    start_untrusted = rng.below(3) == 0
    for i in range(n):
        r = rng.below(20)
        if (i == 0 and not start_untrusted) or r < 3:
            s1 = st(False)
            if s1 is None and rng.below(3):
                s1 = (DEVS[rng.below(3)], clock[0], 0)
            s2 = s1 if rng.below(15) else st(False)
            if s1 is not None and s2 is not None and rng.below(10):
                s2 = (s1[0], s2[1], s2[2])
            ops.append("at %s %s" % (fstat(s1), fstat(s2)))
            if s1 is not None and s2 is not None:
                if s2[0] in sim.trusted or s2[0] == s1[0]:
                    sim.upd(s2, s1[0])
                    sim.trusted.add(s1[0])
                else:
                    break    # panics: the history ends
        elif r < 9:
            s = st()
            ops.append("ob " + fstat(s))
            sim.upd(s)
        elif r < 11:
            if rng.below(3) == 0 and sleeps < 2 and tier != "quick-nosleep":
                ops.append("zz")
                sleeps += 1
            s = st()
            ops.append("mo " + fstat(s))
            # refresh unknown (wall clock): do not update the mirror; thresholds re-aim from observed... keep mirror as is
        elif r < 13:
            if rng.below(3) == 0 and sleeps < 2:
                ops.append("zz")
                sleeps += 1
            k = len(sim.trusted) + rng.below(2)
            ops.append("sc " + " ".join(fstat(st()) for _ in range(k)))
        elif r < 18:
            k = len(sim.trusted) + rng.below(2)
            stats = [st() for _ in range(k)]
            thr = (sim.base + LEEWAY) * 1000000
            d = rng.below(10)
            now = thr + [-(10**6), -1, 0, 999999, 10**6, 10**6 + 1, 5 * 10**9, -5 * 10**9, -thr - 5, 10**15][d]
            now = max(NOW_MIN, min(NOW_MAX, now))
            ops.append("gb %d %s" % (now, " ".join(fstat(x) for x in stats)))
            wanted = 0 if now < 0 else now // 1000000
            if max(0, wanted - sim.base) > LEEWAY and sim.trusted:
                sim.scan(stats)
        else:
            ops.append("gu")
        clock[0] += rng.below(5)
    return "; ".join(ops)


REAL_CASES = [
    "gu; obr 0; obr 1; atr; gu; obr 0; obr 1; gu; gbr 1000000000; gbr 4000000000000000000; gu",
    "obr 1; gbr 4000000000000000000; atr; atr; obr 1; obr 0; gu",
    "atr; ob 7:4000000000:0; gu; obr 0; gbr 4000000000000000000",
]


def generate(rng, n, tier, pid):
    out = list(REAL_CASES)
    # a mirror-free regression prefix: before trust nothing moves; trust; older/newer/untrusted
    out.append("ob 7:100:0; mo 7:100:0; sc 7:100:0; gb 5000000000000 7:100:0; gu; at 7:100:0 7:100:5000000; ob 7:90:0; ob 8:500:0; "
               "ob 7:200:999999999; gu; gb 202992999999 7:250:0; gb 202993000000 7:250:0; zz; sc 7:300:0; zz; mo 7:400:0; ob e; gu")
    out.append("at 7:10:0 8:10:0")          # device changes between the two stats: the expect fires
    out.append("at e 7:1:0; at 7:1:0 e; gu; at 7:5:0 7:5:0; at 8:3:0 8:3:0; gb 9000000000 8:1:0 7:2:0; sc 8:7:0 8:9:0; gu")
    seen = set(out)
    while len(out) < n:
        c = gen_case(rng, tier)
        if c and c not in seen:
            seen.add(c)
            out.append(c)
    return out


def shrink_candidates(line):
    ops = [o.strip() for o in line.split(";") if o.strip()]
    out = []
    for i in range(len(ops)):
        cand = ops[:i] + ops[i + 1:]
        if cand:
            out.append("; ".join(cand))
    for k in range(1, len(ops)):
        out.append("; ".join(ops[:k]))
    out.sort(key=len)
    return out


def explain(bad):
    return ("history replay: `wp_harness nfs <file with the case line>` runs it in a forked process against the real "
            "module (stand-in stats through hook verif_hooks); RunNfs.run_nfs is the model on the same ops")
