"""Family `grdr` (C05 C06): StreamReader::next_record_bytes at memory level against hcobs/GeoReader.v (the chunker of
hcobs/GeoChunker.v pumping into the arena of the reader's iovec, the decoder of hcobs/GeoDec.v decoding every Data chunk as
anchored input): for every record returned, its range and the complete structural state of the iovec handed out -- slice
pointers (chunk creation number, offset) into the chunks the chunker read into, anchors (count, chunk), allocation cache,
bytes -- and the live chunk / byte counters; at the end that the stream stays ended, last_sentinel_offset and the counters."""
from core import gbytes_runs, hexs
from fam_iovw import hash_bytes
import fam_reader

NAME = "grdr"
RUNFILE = "RunGrdr"
PREAMBLE = ("From Coq Require Import NArith ZArith List. Import ListNotations. Open Scope N_scope.\n"
            "From WP Require Import run.RunGrdr run.Hex.")
RUNNER = "run_grdr"
FIELDS = ["per record: [1, range start, range end], the seven iovec fields of family geo, [live chunks, live bytes, every slice in live memory]",
          "last: [stream stays ended, last_sentinel_offset], [live chunks, live bytes]"]
SHARD = 200
BLOCK = 9


def coq_term(line):
    bs, mx, lim, s, sched = fam_reader.parse(line)
    return f"({bs}, {mx}, {lim}, {gbytes_runs(s)})"


def split(obs):
    """records (blocks of 9 fields) and the two trailing fields"""
    if not obs or obs[-1] == [99] or len(obs) < 2 or (len(obs) - 2) % BLOCK:
        return None
    recs = [obs[k:k + BLOCK] for k in range(0, len(obs) - 2, BLOCK)]
    return recs, obs[-2], obs[-1]


def canon(obs, is_model):
    sp = split(obs)
    if sp is None:
        return [[99]]
    recs, tail, glob = sp
    out = []
    for b in recs:
        f = b[1:8]
        dig = f[2]          # both sides print the digest [length, s1, s2]
        out.append([b[0], [f[0], f[1], dig, f[3], f[4], f[5], f[6]], b[8][:2]])
    return [out, tail, glob[:2]]


def view_im(pid, case, obs, is_model):
    return canon(obs, is_model)


def cross_checks(pid, case, impl_obs, model_obs):
    sp = split(impl_obs)
    if sp is None:
        return None
    for n, b in enumerate(sp[0]):
        if len(b[8]) > 2 and b[8][2] != 1:
            return f"record {n}: a slice of the returned iovec points outside live memory"
        if -1 in b[4][1::2] or (b[6] and b[6][0] == -1):
            return f"record {n}: an anchor or the cache refers to a chunk that is not live"
    if sp[1][0] != 1:
        return "the stream does not stay ended"
    return None


def nontrivial(case, obs):
    sp = split(obs)
    return sp is not None and len(sp[0]) >= 2


def stats(cases, obs):
    st = {"records": 0, "no_record": 0, "borrowed_slices": 0, "chunks_max": 0}
    for c, o in zip(cases, obs):
        sp = split(o)
        if sp is None:
            continue
        st["records"] += len(sp[0])
        st["no_record"] += not sp[0]
        for b in sp[0]:
            st["borrowed_slices"] += len(b[2])
            st["chunks_max"] = max([st["chunks_max"]] + b[5][0::2])
    return st


def generate(rng, n, tier, pid):
    # the model's list primitives (List.rev in `back` / `optimize`) are quadratic in the number of slices, so a record
    # that accumulates thousands of one-byte slices is out of reach for the in-Coq evaluation: the block size is raised
    # until a stream is read in at most ~400 blocks (the value-level family `reader` keeps the tiny block sizes)
    out = []
    for c in fam_reader.generate(rng, n, tier, pid):
        t = c.split()
        ln = 0 if t[3] == "-" else len(t[3]) // 2
        bs = fam_reader.dbs() if t[0] == "-" else int(t[0])
        if ln > 400 * max(bs, 1):
            t[0] = str((ln + 399) // 400)
        out.append(" ".join(t))
    return out


shrink_candidates = fam_reader.shrink_candidates


def semantic(case, obs, is_model):
    """Ranges and bytes of the records, stream-stays-ended and last_sentinel_offset -- not slice pointers, anchors, cache."""
    c = canon(obs, is_model)
    if c == [[99]]:
        return c
    return [[[r[0], r[1][0][0], r[1][0][2], r[1][2]] for r in c[0]], c[1]]
