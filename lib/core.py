"""Core of ./check: translate -> prove -> gate -> build harness -> correspond -> evidence.

See DESIGN.md sections 2, 4, 5.  Everything here is orchestration; the deciding artefacts are the
Coq theorems under coq/theories/props/ and the correspondence between the Coq models (evaluated
inside Coq with vm_compute) and the real crates (driven by harness/).
"""
import fcntl, glob, hashlib, json, os, random, re, shutil, subprocess, sys, time
from concurrent.futures import ThreadPoolExecutor

VERIF = os.path.dirname(os.path.dirname(os.path.abspath(__file__)))
REPO = os.environ.get("WOODPILE_REPO", "/repo")
COQ = os.path.join(VERIF, "coq")
CACHE = os.path.join(VERIF, ".cache")
TARGET = os.path.join(CACHE, "target")
GUARD = "woodpile_verif"
NPROC = os.cpu_count() or 4

sys.path.insert(0, os.path.join(VERIF, "lib"))
import translate  # noqa: E402

FORBIDDEN = r"\b(Admitted|admit|Axiom|Axioms|Parameter|Parameters|Conjecture|Conjectures|Hypothesis|Hypotheses|Variable|Variables)\b|Unset\s+Guard|bypass_check|Admit\s+Obligations|type-in-type|impredicative-set|Unset\s+Universe\s+Checking|Unset\s+Positivity"

ENV = dict(os.environ)
ENV.update({"CARGO_NET_OFFLINE": "true", "CARGO_TARGET_DIR": TARGET})


def sh(cmd, timeout, cwd=None, env=None, inp=None):
    """Run a shell command under a timeout; returns (rc, output)."""
    t0 = time.time()
    try:
        p = subprocess.run(cmd, shell=isinstance(cmd, str), cwd=cwd, env=env or ENV, input=inp,
                           stdout=subprocess.PIPE, stderr=subprocess.STDOUT, timeout=timeout, text=True)
        return p.returncode, p.stdout
    except subprocess.TimeoutExpired as e:
        out = e.stdout if isinstance(e.stdout, str) else (e.stdout or b"").decode("utf-8", "replace")
        return 124, (out or "") + f"\n[timeout after {int(time.time() - t0)} s]"


class Lock:
    def __init__(self, name):
        os.makedirs(CACHE, exist_ok=True)
        self.path = os.path.join(CACHE, name + ".lock")

    def __enter__(self):
        self.f = open(self.path, "w")
        fcntl.flock(self.f, fcntl.LOCK_EX)
        return self

    def __exit__(self, *a):
        fcntl.flock(self.f, fcntl.LOCK_UN)
        self.f.close()


# ---------------------------------------------------------------------------------------------
# Coq side

def coq_project():
    rc, out = sh("./mk_project.sh", 120, cwd=COQ)
    if rc != 0:
        raise RuntimeError("mk_project failed: " + out)


def coq_make(targets, timeout=1500):
    """make the given .vo targets (full .vo build, never -vos). Returns (ok, log)."""
    coq_project()
    rc, out = sh(["make", "-j%d" % NPROC, "-k"] + targets, timeout, cwd=COQ)
    return rc == 0, out


def coq_closure(vfile):
    """Files (relative to coq/) that vfile transitively requires inside this project."""
    seen, todo = [], [vfile]
    while todo:
        f = todo.pop()
        if f in seen:
            continue
        seen.append(f)
        try:
            src = open(os.path.join(COQ, f)).read()
        except OSError:
            continue
        src = re.sub(r"\(\*.*?\*\)", " ", src, flags=re.S)
        for m in re.finditer(r"From\s+(WP|WPGen)\s+Require\s+(?:Import\s+|Export\s+)?(.*?)\.(?=\s|$)", src, flags=re.S):
            root = "theories" if m.group(1) == "WP" else "gen"
            for mod in m.group(2).split():
                p = os.path.join(root, mod.replace(".", "/") + ".v")
                if os.path.exists(os.path.join(COQ, p)):
                    todo.append(p)
    return seen


def strip_coq_comments(src):
    out, depth, i = [], 0, 0
    while i < len(src):
        if src.startswith("(*", i):
            depth += 1
            i += 2
        elif src.startswith("*)", i) and depth:
            depth -= 1
            i += 2
        else:
            if not depth:
                out.append(src[i])
            i += 1
    return "".join(out)


def gates(files):
    """Forbidden-construct gate over the given project files (comments stripped). Returns list of hits."""
    hits = []
    for f in files:
        if f.startswith("gen/"):
            continue
        src = strip_coq_comments(open(os.path.join(COQ, f)).read())
        # Section-local Variable/Hypothesis are allowed: only flag them outside sections
        depth = 0
        for ln, line in enumerate(src.split("\n"), 1):
            if re.match(r"\s*Section\b", line):
                depth += 1
            elif re.match(r"\s*End\b", line) and depth:
                depth -= 1
            for m in re.finditer(FORBIDDEN, line):
                w = m.group(0)
                if re.match(r"(Variable|Variables|Hypothesis|Hypotheses)$", w) and depth > 0:
                    continue
                if w == "admit" and re.search(r"admit\w", line):
                    continue
                hits.append(f"{f}:{ln}: {w}")
    rc, out = sh("grep -n 'type-in-type\\|impredicative-set' _CoqProject || true", 10, cwd=COQ)
    if out.strip():
        hits.append("_CoqProject: " + out.strip())
    return hits


def count_obligations(files):
    n = 0
    names = []
    for f in files:
        if f.startswith("gen/"):
            continue
        src = strip_coq_comments(open(os.path.join(COQ, f)).read())
        for m in re.finditer(r"^\s*(?:Local\s+|Global\s+)?(Theorem|Lemma|Example|Corollary|Fact|Remark|Proposition)\s+([A-Za-z_0-9']+)", src, flags=re.M):
            n += 1
            names.append(m.group(2))
    return n, names


STD_AXIOMS_ALLOWED = set()   # target: every property theorem is closed under the global context


def print_assumptions(pid):
    """Re-run coqc on props/<pid>.v (dependencies are up to date) and parse Print Assumptions output."""
    v = f"theories/props/{pid}.v"
    tmpo = os.path.join(CACHE, "run", pid, "pa", f"{pid}.vo")
    os.makedirs(os.path.dirname(tmpo), exist_ok=True)
    rc, out = sh(["coqc", "-q", "-noglob", "-Q", "theories", "WP", "-Q", "gen", "WPGen", "-w",
                  "-notation-overridden,-deprecated-hint-without-locality,-deprecated-instance-without-locality",
                  v, "-o", tmpo], 600, cwd=COQ)
    closed = len(re.findall(r"Closed under the global context", out))
    axioms = []
    for m in re.finditer(r"^Axioms:\n((?:.+\n?)+?)(?=\n\S|\Z)", out, flags=re.M):
        for a in re.finditer(r"^([A-Za-z_0-9'.]+)\s*:", m.group(1), flags=re.M):
            axioms.append(a.group(1))
    return rc == 0, closed, axioms, out


def coqchk(pid):
    """Independent re-check of props/<pid>.vo and everything it depends on (thorough tier). Returns (ok, summary)."""
    rc, out = sh(["coqchk", "-o", "-silent", "-Q", "theories", "WP", "-Q", "gen", "WPGen", f"WP.props.{pid}"], 1500, cwd=COQ)
    m = re.search(r"\* Axioms:\s*(.*?)\n\s*\n", out, flags=re.S)
    axioms = m.group(1).strip() if m else "?"
    bad = [k for k in ("type-in-type", "unsafe (co)fixpoints", "positivity is assumed")
           if not re.search(re.escape(k) + r":\s*<none>", out)]
    return rc == 0 and axioms == "<none>" and not bad, {"rc": rc, "axioms": axioms, "unsafe": bad}


def coqc_error_summary(log):
    m = re.search(r'File "([^"]+)", line (\d+), characters [^\n]*\n(Error:.*?)(?:\n\n|\nmake|\Z)', log, flags=re.S)
    if m:
        return {"file": m.group(1), "line": int(m.group(2)), "error": m.group(3)[:1500]}
    return {"file": None, "line": None, "error": log[-1500:]}


def broken_theorem_name(err):
    """Name of the last Theorem/Lemma statement at or before the failing line."""
    if not err.get("file"):
        return None
    try:
        p = err["file"] if os.path.isabs(err["file"]) else os.path.join(COQ, err["file"])
        lines = open(p).read().split("\n")[:err["line"]]
    except OSError:
        return None
    for line in reversed(lines):
        m = re.match(r"\s*(?:Theorem|Lemma|Example|Corollary|Fact|Remark|Definition|Check)\s+([A-Za-z_0-9']+)", line)
        if m:
            return m.group(1)
    return None


# ---------------------------------------------------------------------------------------------
# evaluating the model inside Coq

def parse_coq_value(out):
    """Parse the `= <term> : <type>` answer of one Eval vm_compute of a nested list of Z."""
    m = re.search(r"=\s*(\[.*\])\s*:\s*list", out, flags=re.S)
    if not m:
        raise ValueError("cannot parse coqc output: " + out[:2000])
    t = re.sub(r"%[A-Za-z]+", "", m.group(1))
    t = re.sub(r"\s+", "", t).replace(";", ",").replace("(", "").replace(")", "")
    return json.loads(t)


SHARD_WEIGHT = 130_000
_REP = re.compile(r"(?:rep|ramp)\s+\d+\s+(\d+)")


def term_weight(t):
    """Rough number of bytes a case term stands for: literal elements plus the lengths of `rep b n` / `ramp b n` runs."""
    return t.count(";") + sum(int(n) for n in _REP.findall(t))


def coq_eval(preamble, runner, terms, workdir, tag, timeout=900, shard=250):
    """Evaluate `runner term` for each Gallina term, sharded over parallel coqc processes.
    Returns list of results (nested lists of ints) in order."""
    os.makedirs(workdir, exist_ok=True)
    # shards are bounded in number of cases AND in the amount of data they evaluate (a coqc process keeps the printed
    # results of its whole shard in memory: production-size messages would otherwise need several GB per process)
    shards, cur, w = [], [], 0
    for t in terms:
        tw = term_weight(t)
        if cur and (len(cur) >= shard or w + tw > SHARD_WEIGHT):
            shards.append(cur)
            cur, w = [], 0
        cur.append(t)
        w += tw
    if cur:
        shards.append(cur)
    files = []
    for k, sh_terms in enumerate(shards):
        path = os.path.join(workdir, f"cases_{tag}_{k}.v")
        with open(path, "w") as f:
            f.write(preamble + "\n")
            f.write("Definition cases := [\n" + ";\n".join(sh_terms) + "\n].\n")
            f.write(f"Eval vm_compute in (map {runner} cases).\n")
        files.append(path)

    def mem_available_gb():
        try:
            for line in open("/proc/meminfo"):
                if line.startswith("MemAvailable:"):
                    return int(line.split()[1]) / 1e6
        except OSError:
            pass
        return 1e9

    def one(path):
        # `ulimit -s unlimited`: vm_compute on long byte lists recurses deeply
        cmd = (f"ulimit -s unlimited 2>/dev/null; coqc -q -noglob -Q theories WP -Q gen WPGen "
               f"-w -all {path} -o {path}o")
        out = ""
        for attempt in range(3):
            # do not start another evaluation while memory is short (a shard of production-size cases can need GBs);
            # a process killed by the kernel's OOM killer prints nothing: it is retried, alone in its thread, later
            waited = 0
            while mem_available_gb() < 10 and waited < 900:
                time.sleep(3)
                waited += 3
            rc, out = sh(["bash", "-c", cmd], timeout, cwd=COQ)
            if rc == 0:
                return parse_coq_value(out)
            if "Error" in out or "timeout" in out:
                break
            time.sleep(20 * (attempt + 1))
        raise RuntimeError(f"coqc failed on {path}:\n{out[-3000:]}")

    with ThreadPoolExecutor(max_workers=NPROC) as ex:
        parts = list(ex.map(one, files))
    res = [r for p in parts for r in p]
    if len(res) != len(terms):
        raise RuntimeError(f"coq returned {len(res)} results for {len(terms)} cases")
    for p in files:
        for q in (p, p + "o"):
            try:
                os.remove(q)
            except OSError:
                pass
    return res


# Gallina printers
def gz(n):
    return f"({n})" if n < 0 else str(n)


def glist(items):
    return "[" + "; ".join(items) + "]"


def gbytes(bs):
    return "[" + ";".join(str(b) for b in bs) + "]"


def gbytes_smart(bs):
    """Like gbytes, but ramps and constant runs (what the generators mostly produce) are written as
    `ramp b n` / `rep b n` (run.Hex): coqc parses about 25k characters per second."""
    n = len(bs)
    if n >= 8:
        if all(bs[i] == bs[0] for i in range(n)):
            return f"(rep {bs[0]} {n})"
        if all(bs[i] == (bs[0] + i) % 256 for i in range(n)):
            return f"(ramp {bs[0]} {n})"
    return gbytes(bs)


def gbytes_runs(bs):
    """gbytes with every run of >= 12 equal bytes written as `rep b n` (needs run.Hex in the preamble)."""
    parts, lit, i, n = [], [], 0, len(bs)
    while i < n:
        j = i
        while j < n and bs[j] == bs[i]:
            j += 1
        if j - i >= 12:
            if lit:
                parts.append(gbytes(lit))
                lit = []
            parts.append(f"rep {bs[i]} {j - i}")
            i = j
        else:
            lit += bs[i:j]
            i = j
    if lit or not parts:
        parts.append(gbytes(lit))
    return "(" + " ++ ".join(parts) + ")"


def gbool(b):
    return "true" if b else "false"


# ---------------------------------------------------------------------------------------------
# Rust side

def cargo_build():
    """Build the harness against /repo's working tree, debug and release, hooks on."""
    env = dict(ENV)
    env["RUSTFLAGS"] = f"--cfg {GUARD}"
    logs = []
    with Lock("cargo"):
        for prof in ("debug", "release"):
            cmd = ["cargo", "build", "--offline", "--quiet"] + (["--release"] if prof == "release" else [])
            rc, out = sh(cmd, 1500, cwd=os.path.join(VERIF, "harness"), env=env)
            logs.append(out)
            if rc != 0:
                return False, "\n".join(logs)
    return True, "\n".join(logs)


class HarnessCrash(RuntimeError):
    """The harness process died (abort, signal) instead of reporting an observation: `case` is the first case
    that makes it die when run on its own prefix."""
    def __init__(self, profile, family, rc, case, msg):
        super().__init__(f"harness {profile} {family} failed rc={rc}: {msg}")
        self.profile, self.family, self.rc, self.case, self.msg = profile, family, rc, case, msg


def find_crash(exe, family, lines, workdir, timeout=120):
    """Bisects for the shortest prefix of `lines` on which the harness dies; returns its last case (or None)."""
    import subprocess, tempfile
    def dies(k):
        cf = os.path.join(workdir, f"crash_{family}.cases")
        with open(cf, "w") as f:
            f.write("\n".join(lines[:k]) + "\n")
        try:
            r = subprocess.run([exe, family, cf, cf + ".out"], stdout=subprocess.PIPE, stderr=subprocess.STDOUT, timeout=timeout)
            return r.returncode != 0
        except subprocess.TimeoutExpired:
            return True
    if not lines or not dies(len(lines)):
        return None
    lo, hi = 0, len(lines)          # dies(hi), not dies(lo)
    while hi - lo > 1:
        mid = (lo + hi) // 2
        if dies(mid):
            hi = mid
        else:
            lo = mid
    # prefer the case alone if it dies alone (independent of what ran before)
    return lines[hi - 1]


def harness_run(profile, family, casefile, outfile, timeout=1200, jobs=8):
    """Runs the harness on the case file; large files are split over `jobs` processes (cases are independent)."""
    exe = os.path.join(TARGET, profile, "wp_harness")
    lines = [l for l in open(casefile).read().split("\n") if l.strip() and not l.startswith("#")]
    if len(lines) < 64 or jobs <= 1:
        rc, out = sh([exe, family, casefile, outfile], timeout)
        if rc != 0:
            bad = find_crash(exe, family, lines, os.path.dirname(outfile)) if rc not in (2, 124) else None
            if bad is not None:
                raise HarnessCrash(profile, family, rc, bad, out[-500:])
            raise RuntimeError(f"harness {profile} {family} failed rc={rc}: {out[-2000:]}")
        with open(outfile) as f:
            return [json.loads(l) for l in f if l.strip()]
    import subprocess
    per = (len(lines) + jobs - 1) // jobs
    parts = []
    for k in range(jobs):
        chunk = lines[k * per:(k + 1) * per]
        if not chunk:
            continue
        cf, of = f"{casefile}.part{k}", f"{outfile}.part{k}"
        with open(cf, "w") as f:
            f.write("\n".join(chunk) + "\n")
        parts.append((cf, of, subprocess.Popen([exe, family, cf, of], stdout=subprocess.PIPE, stderr=subprocess.STDOUT)))
    res = []
    for cf, of, pr in parts:
        try:
            out, _ = pr.communicate(timeout=timeout)
        except subprocess.TimeoutExpired:
            pr.kill()
            raise RuntimeError(f"harness {profile} {family} timed out")
        if pr.returncode != 0:
            for _cf, _of, other in parts:
                if other.poll() is None:
                    other.kill()
            chunk = [l for l in open(cf).read().split("\n") if l.strip()]
            bad = find_crash(exe, family, chunk, os.path.dirname(outfile)) if pr.returncode != 2 else None
            if bad is not None:
                raise HarnessCrash(profile, family, pr.returncode, bad, out.decode(errors='replace')[-500:])
            raise RuntimeError(f"harness {profile} {family} failed rc={pr.returncode}: {out.decode(errors='replace')[-2000:]}")
        with open(of) as f:
            res += [json.loads(l) for l in f if l.strip()]
        os.remove(cf)
        os.remove(of)
    return res


# ---------------------------------------------------------------------------------------------
# known findings

def load_known():
    known, fixed = [], []
    p = os.path.join(VERIF, "known_findings.txt")
    if os.path.exists(p):
        for line in open(p):
            line = line.strip()
            if line.startswith("known:"):
                m = re.match(r"known:\s*property=(\S+)\s+class=(\S+)\s+(.*)", line)
                if m:
                    known.append({"property": m.group(1), "cls": m.group(2), "text": m.group(3)})
            elif line.startswith("fixed:"):
                fixed.append(line)
    return known, fixed


# ---------------------------------------------------------------------------------------------
class Rng:
    """SplitMix64: every random choice of a run derives from VERIF_SEED."""

    def __init__(self, seed):
        self.s = seed & 0xFFFFFFFFFFFFFFFF

    def next(self):
        self.s = (self.s + 0x9E3779B97F4A7C15) & 0xFFFFFFFFFFFFFFFF
        z = self.s
        z = ((z ^ (z >> 30)) * 0xBF58476D1CE4E5B9) & 0xFFFFFFFFFFFFFFFF
        z = ((z ^ (z >> 27)) * 0x94D049BB133111EB) & 0xFFFFFFFFFFFFFFFF
        return z ^ (z >> 31)

    def below(self, n):
        return self.next() % n if n > 0 else 0

    def range(self, a, b):
        return a + self.below(b - a + 1)

    def choice(self, xs):
        return xs[self.below(len(xs))]

    def chance(self, num, den):
        return self.below(den) < num

    def bytes(self, n, alphabet=None):
        if alphabet:
            return [alphabet[self.below(len(alphabet))] for _ in range(n)]
        return [self.below(256) for _ in range(n)]

    def weighted(self, pairs):
        tot = sum(w for w, _ in pairs)
        r = self.below(tot)
        for w, x in pairs:
            if r < w:
                return x
            r -= w
        return pairs[-1][1]


def hexs(bs):
    return bytes(bs).hex() if bs else "-"
