#!/usr/bin/env python3
"""Automated mutant sweep (development aid, not a registered check): small syntactic mutations of the non-test source of
/repo that survive the crate's own tests are run against the quick checks mapped to that file; survivors of both are
listed for triage (many are equivalent mutants).  /repo is restored after every mutant.
usage: mutate.py <minutes> [file-substring ...]"""
import json, os, random, re, subprocess, sys, time
VERIF = os.path.dirname(os.path.dirname(os.path.abspath(__file__)))
OUT = os.path.join(VERIF, ".cache", "mut")
ENV = dict(os.environ, CARGO_NET_OFFLINE="true", RUST_BACKTRACE="0")

FILES = {
    "hcobs/src/lib.rs": ("hcobs", ["C01", "C02", "C07"]),
    "hcobs/src/encoder.rs": ("hcobs", ["C01", "C02", "C09"]),
    "hcobs/src/decoder.rs": ("hcobs", ["C07", "C01"]),
    "hcobs/src/stream_reader.rs": ("hcobs", ["C08", "C06"]),
    "owning_iovec/src/implementation.rs": ("owning_iovec", ["C03", "C05"]),
    "owning_iovec/src/global_deque.rs": ("owning_iovec", ["C03", "C05"]),
    "owning_iovec/src/byte_arena/mod.rs": ("owning_iovec", ["C03", "C17", "C10"]),
    "owning_iovec/src/byte_arena/alloc_cache.rs": ("owning_iovec", ["C03", "C17"]),
    "owning_iovec/src/byte_arena/anchor.rs": ("owning_iovec", ["C05", "C10"]),
    "owning_iovec/src/lib.rs": ("owning_iovec", ["C03"]),
    "rough_tlv/src/encoder.rs": ("rough_tlv", ["C11"]),
    "rough_tlv/src/decoder.rs": ("rough_tlv", ["C12"]),
    "sliding_deque/src/sliding_deque.rs": ("sliding_deque", ["C15", "C03"]),
    "sliding_deque/src/sorted_deque.rs": ("sliding_deque", ["C16", "C04"]),
    "vouched_time/src/lib.rs": ("vouched_time", ["C14"]),
    "vouched_time/src/atomic_base_time.rs": ("vouched_time", ["C13", "C18"]),
    "vouched_time/src/nfs_voucher.rs": ("vouched_time", ["C19"]),
}

OPS = [
    (r" <= ", " < "), (r" < ", " <= "), (r" >= ", " > "), (r" > ", " >= "), (r" == ", " != "), (r" != ", " == "),
    (r" \+ 1\b", ""), (r" - 1\b", ""), (r" && ", " || "), (r" \|\| ", " && "), (r" \| ", " & "), (r" & ", " | "),
    (r"\.min\(", ".max("), (r"\.max\(", ".min("), (r"\btrue\b", "false"), (r"\bfalse\b", "true"),
    (r"saturating_add", "wrapping_add"), (r"saturating_sub", "wrapping_sub"), (r"saturating_mul", "wrapping_mul"),
    (r"Ordering::Acquire", "Ordering::Relaxed"), (r"Ordering::Release", "Ordering::Relaxed"),
    (r"\+= ", "-= "), (r"-= ", "+= "), (r" \+ ", " - "), (r" - ", " + "), (r"\b0\b", "1"), (r"\b1\b", "2"), (r"\b2\b", "3"),
    (r"^(\s*)(self\.[a-z_\.]+\([^;]*\);)\s*$", r"\1// \2"),          # delete a self-call statement
    (r"^(\s*)(assert[a-z_]*!\(.*\);)\s*$", None),                      # (asserts are not mutated)
    (r"\.is_empty\(\)", ".is_empty() == false"), (r"if !", "if "), (r"return Ok\(\(\)\);", "return Err(std::io::Error::other(\"m\"));"),
]


def sh(cmd, cwd, timeout=900):
    try:
        r = subprocess.run(cmd, shell=True, cwd=cwd, env=ENV, capture_output=True, text=True, timeout=timeout)
        return r.returncode, r.stdout + r.stderr
    except subprocess.TimeoutExpired:
        return 124, "timeout"


def code_lines(path):
    """Indices of lines that belong to non-test, non-hook code."""
    lines = open(path).read().split("\n")
    ok, skip_depth, pending = [], None, False
    depth = 0
    for i, l in enumerate(lines):
        s = l.strip()
        if s.startswith("#[test]") or s.startswith("#[cfg(test)]") or "cfg(woodpile_verif)" in s:
            pending = True
        opens, closes = l.count("{"), l.count("}")
        if pending and opens > 0 and skip_depth is None:
            skip_depth = depth
            pending = False
        in_skip = skip_depth is not None
        depth += opens - closes
        if in_skip and depth <= skip_depth:
            skip_depth = None
            continue
        if in_skip or pending:
            continue
        if not s or s.startswith("//") or s.startswith("#[") or s.startswith("use ") or s.startswith("assert") or s.startswith("debug_assert"):
            continue
        ok.append(i)
    return lines, ok


def mutants(path):
    lines, ok = code_lines(path)
    out = []
    for i in ok:
        l = lines[i]
        code = l.split("//")[0]
        for pat, rep in OPS:
            if rep is None:
                continue
            for m in re.finditer(pat, code):
                new = code[:m.start()] + re.sub(pat, rep, code[m.start():m.end()]) + code[m.end():] + l[len(code):]
                if new != l:
                    out.append((i, l, new))
    return lines, out


def main():
    minutes = float(sys.argv[1])
    filt = sys.argv[2:]
    t_end = time.time() + 60 * minutes
    rng = random.Random(20261001)
    todo = []
    for f in FILES:
        if filt and not any(x in f for x in filt):
            continue
        lines, ms = mutants(os.path.join("/repo", f))
        for (i, old, new) in ms:
            todo.append((f, i, old, new))
    rng.shuffle(todo)
    done_path = os.path.join(OUT, "done.jsonl")
    done = set()
    if os.path.exists(done_path):
        for l in open(done_path):
            d = json.loads(l)
            done.add((d["file"], d["line"], d["new"]))
    print(len(todo), "candidate mutants;", len(done), "already done")
    assert subprocess.run("git -C /repo status --porcelain", shell=True, capture_output=True, text=True).stdout.strip() == "", "/repo not clean"
    n = 0
    for (f, i, old, new) in todo:
        if time.time() > t_end:
            break
        if (f, i, new) in done:
            continue
        crate, checks = FILES[f]
        path = os.path.join("/repo", f)
        src = open(path).read()
        lines = src.split("\n")
        assert lines[i] == old
        lines[i] = new
        rec = {"file": f, "line": i, "old": old.strip(), "new": new, "tests": None, "checks": {}}
        try:
            open(path, "w").write("\n".join(lines))
            rc, out = sh(f"cargo test -p {crate} --offline 2>&1 | tail -40", "/repo", 600)
            failed = ("test result: FAILED" in out) or ("error" in out and "could not compile" in out) or ("error[" in out) or rc == 124
            passed = "test result: ok" in out and not failed
            rec["tests"] = "pass" if passed else "fail"
            if passed:
                for c in checks:
                    rc, o = sh(f"{VERIF}/check {c} --tier quick 2>&1 | tail -3", VERIF, 1500)
                    caught = "VIOLATION" in o
                    rec["checks"][c] = "caught" if caught else ("ok" if "OK property" in o else "error")
                    if caught:
                        break
                if not any(v == "caught" for v in rec["checks"].values()):
                    # a candidate miss: does it survive the whole workspace suite (the baseline command)?
                    rc, out = sh("cargo test --workspace --no-fail-fast --offline 2>&1 | grep -E '^test result|FAILED' | head -30", "/repo", 900)
                    rec["workspace"] = "fail" if "FAILED" in out else "pass"
        finally:
            open(path, "w").write(src)
            subprocess.run("git -C /repo checkout -- .", shell=True)
        with open(done_path, "a") as fo:
            fo.write(json.dumps(rec) + "\n")
        n += 1
        status = rec["tests"] + (" " + json.dumps(rec["checks"]) if rec["checks"] else "")
        print(f"[{n}] {f}:{i+1} {old.strip()[:60]!r} -> {new.strip()[:60]!r}: {status}", flush=True)
    # restore evidence files possibly rewritten by the runs
    subprocess.run("git -C %s checkout -- evidence" % VERIF, shell=True)
    return 0


if __name__ == "__main__":
    sys.exit(main())
