"""Family `gchk` (C05, C08): StreamChunker::pump at memory level against hcobs/GeoChunker.v over the geometry-faithful
arena model (iovec/Geo.v): for every pump the chunk (for Data: chunk creation number, offset, length, the chunk its own
anchor holds, bytes) and the arena's cache (chunk, capacity, bump); at the end the live chunk / byte counters with every
returned slice still held; the harness also checks that every returned slice is unchanged, has not moved and lies inside
the chunk its own anchor holds after all later refills."""
from core import gbytes, hexs
import fam_chunk

NAME = "gchk"
RUNFILE = "RunGchk"
PREAMBLE = ("From Coq Require Import NArith ZArith List. Import ListNotations. Open Scope N_scope.\n"
            "From WP Require Import run.RunGchk.")
RUNNER = "run_gchk"
FIELDS = ["per pump: [0, end offset, chunk#, offset in chunk, len, anchor chunk#, data...] | [1, end offset] | [2]; then the cache [chunk#, cap, bump] | []",
          "at the end (after one more pump): cache; [live chunks, live bytes, every returned slice unchanged / unmoved / inside the chunk its anchor holds]"]
SHARD = 150

parse = fam_chunk.parse


def coq_term(line):
    bs, arena, s, sched = parse(line)
    pre = 0 if arena == "none" else 1 if arena == "used" else 2 + int(arena[3:])
    return f"({bs}, {pre}, {gbytes(s)})"


def cross_checks(pid, case, impl_obs, model_obs):
    if impl_obs and impl_obs[-1] != [99] and len(impl_obs[-1]) == 3 and impl_obs[-1][2] != 1:
        return "a returned Data slice changed, moved or left the chunk its own anchor holds after later pumps"
    if any(f == [98] for f in impl_obs):
        return "Eof is not sticky"
    return None


def nontrivial(case, obs):
    return sum(1 for c in obs if c and c[0] == 0 and len(c) > 5) >= 2


def stats(cases, obs):
    st = {"data_chunks": 0, "pumps": 0, "chunks_used_max": 0, "arena_none": 0, "arena_used": 0, "arena_rem": 0}
    for c, o in zip(cases, obs):
        a = c.split()[1]
        st["arena_" + ("rem" if a.startswith("rem") else a)] += 1
        st["pumps"] += sum(1 for x in o if x and x[0] in (0, 1, 2) and len(x) != 3) // 1
        ds = [x for x in o if x and x[0] == 0 and len(x) > 5]
        st["data_chunks"] += len(ds)
        if ds:
            st["chunks_used_max"] = max(st["chunks_used_max"], max(x[2] for x in ds))
    return st


def generate(rng, n, tier, pid):
    out = fam_chunk.generate(rng, n, tier, pid)
    # long streams with small blocks: many refills cross arena chunk boundaries while earlier chunks are still held
    for _ in range(max(4, min(40, n // 20))):
        bs = rng.choice([1, 2, 3, 7, 64, 500, 4096])
        s = fam_chunk.rand_stream(rng, rng.range(3000, 9000))
        out.append(f"{bs} {rng.choice(['none', 'used', 'rem1', 'rem5'])} {hexs(s)} " + " ".join(fam_chunk.rand_sched(rng)))
    return out


shrink_candidates = fam_chunk.shrink_candidates


def semantic(case, obs, is_model):
    """The chunk sequence (kind, end offset, data) -- not where the data lies."""
    out = []
    for f in obs[0::2]:
        if not f:
            continue
        if f[0] == 0 and len(f) > 5:
            out.append([0, f[1]] + f[6:])
        elif f[0] in (1, 2, 98, 99):
            out.append(f[:2])
        if f[0] == 2:
            break
    return out
