"""Family `iovw` (C03, C04, C05, C10, C20): a world of up to four OwningIovecs."""
from core import gbytes_smart as gbytes, glist, hexs, gbool

NAME = "iovw"
RUNFILE = "RunIovw"
PREAMBLE = ("From Coq Require Import NArith ZArith List. Import ListNotations. Open Scope N_scope.\n"
            "From WP Require Import iovec.Pipe run.RunIovw run.Hex.")
RUNNER = "run_iovw"
FIELDS = ["per op: [ok, return value...]", "then per object 0..3: [total_size, len, iovs_ok, stable slices], slice lengths, all bytes,",
          "impl: anchors (count, chunk#)*, chunk# per slice, cache [chunk#, cap, bump], backrefs; model: hole-free prefix of the cells",
          "impl last: [live chunks, live bytes, every slice in live memory]"]
SHARD = 150
NOBJ = 4
IMPL_BLOCK = 1 + 7 * NOBJ + 1
MODEL_BLOCK = 1 + 4 * NOBJ


def parse(line):
    out = []
    for tok in line.split():
        i, op = tok[1:].split(":", 1)
        out.append((int(i), op.split(":")))
    return out


def hexb(h):
    return list(bytes.fromhex(h)) if h != "-" else []


def impl_blocks(obs):
    return [obs[k:k + IMPL_BLOCK] for k in range(0, len(obs), IMPL_BLOCK)]


def coq_term_with_obs(line, obs):
    ops = parse(line)
    blocks = impl_blocks(obs)
    lens = [0] * NOBJ
    terms = []
    for n, (i, p) in enumerate(ops):
        blk = blocks[n] if n < len(blocks) and len(blocks[n]) == IMPL_BLOCK else None

        def after(j):
            if blk is None:
                return lens[j]
            f = blk[1 + 7 * j]
            return f[1] if f else 0
        k = p[0]
        merged = False
        if k in ("pu", "pc", "pb", "an", "rp") and hexb(p[1]):
            merged = after(i) == lens[i]
        if k == "new":
            t = "WNew"
        elif k == "dr":
            t = "WDrop"
        elif k == "cn":
            t = f"WClone {p[1]}%nat"
        elif k == "tk":
            t = f"WTake {p[1]}%nat"
        elif k in ("pu", "pc", "pb", "an"):
            t = f"WPush {gbool(merged)} {gbytes(hexb(p[1]))}"
        elif k == "ex":
            t = "WExtend " + glist([gbytes(hexb(h)) for h in p[1].split(",")])
        elif k == "rp":
            t = f"WRegister {gbool(merged)} {gbytes(hexb(p[1]))}"
        elif k == "bf":
            t = f"WBackfill {p[1]}%nat {gbytes(hexb(p[2]))}"
        elif k == "cs":
            t = f"WConsume {p[1]}"
        elif k == "ab":
            t = f"WAdvance {p[1]}"
        elif k == "pf":
            t = "WPop"
        elif k == "rd":
            t = f"WRead {p[1]}"
        elif k == "cl":
            t = "WClear"
        else:
            t = "WNop"
        terms.append(f"({i}%nat, {t})")
        for j in range(NOBJ):
            lens[j] = after(j)
    return glist(terms)


def normalise(case, obs, is_model):
    """Bring implementation and model observations to a common shape:
    list of blocks {ret, objs:[{hdr, lens, bytes, digest, extra}], glob}."""
    B, per, impl = (MODEL_BLOCK, 4, False) if is_model else (IMPL_BLOCK, 7, True)
    out = []
    k = 0
    ops = parse(case)
    while k < len(obs):
        if obs[k] == [99] or len(obs) - k < B:
            out.append({"ret": [99]})
            break
        blk = obs[k:k + B]
        k += B
        objs = []
        for j in range(NOBJ):
            f = blk[1 + per * j: 1 + per * (j + 1)]
            if impl:
                objs.append({"hdr": f[0], "lens": f[1], "bytes": f[2], "digest": hash_bytes(f[2]) if f[0] else [], "extra": f[3:]})
            else:
                objs.append({"hdr": f[0], "lens": f[1], "bytes": None, "digest": f[2], "extra": f[3:]})
        if not impl and out and "objs" in out[-1]:
            for j in range(NOBJ):
                if objs[j]["hdr"] == [-1]:
                    objs[j] = out[-1]["objs"][j]
        elif not impl:
            for j in range(NOBJ):
                if objs[j]["hdr"] == [-1]:
                    objs[j] = {"hdr": [], "lens": [], "bytes": None, "digest": [], "extra": [[]]}
        ret = blk[0]
        if impl and len(out) < len(ops) and ops[len(out)][1][0] == "an":
            ret = ret[:1]          # the second number says whether push() borrowed or copied the anchored bytes (used by fam_anch)
        out.append({"ret": ret, "raw_ret": blk[0], "objs": objs, "glob": blk[-1] if impl else None, "impl": impl})
    return out


HASHP = (1 << 61) - 1


def hash_bytes(bs):
    s1 = s2 = 0
    for i, b in enumerate(bs):
        s1 += b + 1
        s2 += (i + 1) * (b + 1)
    return [len(bs), s1, s2]


def stable_bytes(o):
    if not o["hdr"]:
        return []
    n = sum(o["lens"][:o["hdr"][3]])
    return o["bytes"][:n]


def view_im(pid, case, obs, is_model):
    blocks = normalise(case, obs, is_model)
    ops = parse(case)
    out = []
    for n, b in enumerate(blocks):
        if "objs" not in b:
            out.append(b["ret"])
            break
        if pid == "C03":
            # every return value, total size, the buffered bytes, number of slices, and that no slice is empty
            out.append([b["ret"], [[o["hdr"][:2], o["digest"], all(x > 0 for x in o["lens"])] for o in b["objs"] if o["hdr"]]])
        elif pid == "C04":
            row = [b["ret"]]
            for o in b["objs"]:
                if o["hdr"]:
                    row.append([o["hdr"][2]])
            out.append(row)
        elif pid == "C20":
            out.append([b["ret"], [[o["hdr"][:1], o["digest"]] for o in b["objs"] if o["hdr"]]])
        else:
            out.append([b["ret"]])
    return out


def cross_checks(pid, case, impl_obs, model_obs):
    """Predicates that relate implementation and model observations beyond equality (evaluated by the runner
    through `extra_violation`)."""
    bi, bm = normalise(case, impl_obs, False), normalise(case, model_obs, True)
    ops = parse(case)
    for n, (x, y) in enumerate(zip(bi, bm)):
        if "objs" not in x or "objs" not in y:
            break
        if pid == "C04":
            for j in range(NOBJ):
                ox, oy = x["objs"][j], y["objs"][j]
                if not ox["hdr"] or not oy["hdr"]:
                    continue
                vis = stable_bytes(ox)
                free_len = oy["extra"][0][0]     # length of the hole-free prefix of the model's cells
                if ox["digest"] == oy["digest"] and len(vis) > free_len:
                    return f"op {n}: object {j} exposes bytes beyond the first pending placeholder"
                if ox["hdr"][2] == 1 and vis != ox["bytes"]:
                    return f"op {n}: object {j} reports no pending placeholder but not every byte is consumable"
        if pid == "C20" and n > 0:
            i, p = ops[n]
            prev = bi[n - 1]
            for j in range(NOBJ):
                if j == i or (p[0] in ("cn", "tk") and j == int(p[1])):
                    continue
                if prev["objs"][j]["hdr"] and x["objs"][j]["hdr"]:
                    if prev["objs"][j]["bytes"] != x["objs"][j]["bytes"] or prev["objs"][j]["hdr"] != x["objs"][j]["hdr"]:
                        return f"op {n} on object {i} changed object {j}"
        if pid == "C20":
            # the frame invariant of the world model (WI), evaluated on the implementation: every arena slice of
            # every object ends at or below the bump pointer of the allocation cache that owns its chunk
            caches = {}
            for o in x["objs"]:
                if o["hdr"] and o["extra"][2]:
                    caches[o["extra"][2][0]] = o["extra"][2][2]
            for j, o in enumerate(x["objs"]):
                if not o["hdr"]:
                    continue
                pairs = o["extra"][1]
                for q, ln in enumerate(o["lens"]):
                    cid, off = pairs[2 * q], pairs[2 * q + 1]
                    if cid in caches and off + ln > caches[cid]:
                        return f"op {n}: a slice of object {j} extends beyond the bump pointer of the cache that owns its chunk"
        if pid in ("C05", "C20", "C03") and x.get("glob") and x["glob"][2] != 1:
            return f"op {n}: a slice points outside live memory"
    return None


def advisory_diff(case, impl, model):
    bi, bm = normalise(case, impl, False), normalise(case, model, True)
    for x, y in zip(bi, bm):
        if "objs" in x and "objs" in y:
            for ox, oy in zip(x["objs"], y["objs"]):
                if ox["hdr"] != oy["hdr"] or ox["lens"] != oy["lens"]:
                    return True
    return False


def nontrivial(case, obs):
    # non-trivial: at some point two placeholders were pending in one object, or two objects were live
    for b in normalise(case, obs, False):
        if "objs" not in b:
            continue
        if sum(1 for o in b["objs"] if o["hdr"]) >= 2:
            return True
        for o in b["objs"]:
            if o["extra"] and len(o["extra"]) >= 4 and len(o["extra"][3]) >= 8:
                return True
    return False


def stats(cases, obs):
    st = {"ops": 0, "two_pending": 0, "multi_object": 0, "merged_pushes": 0, "panics": 0}
    for c, o in zip(cases, obs):
        st["ops"] += len(c.split())
        bl = normalise(c, o, False)
        if bl and "objs" not in bl[-1]:
            st["panics"] += 1
        if any("objs" in b and any(ob["extra"] and len(ob["extra"]) >= 4 and len(ob["extra"][3]) >= 8 for ob in b["objs"]) for b in bl):
            st["two_pending"] += 1
        if any("objs" in b and sum(1 for ob in b["objs"] if ob["hdr"]) >= 2 for b in bl):
            st["multi_object"] += 1
    return st


SIZES = [(6, (1, 4)), (3, (5, 40)), (3, (60, 70)), (3, (250, 262)), (1, (4090, 4100)), (1, (300, 3000))]


def rand_bytes(rng, big=True):
    lo, hi = rng.weighted(SIZES if big else SIZES[:3])
    n = rng.range(lo, hi)
    b = rng.below(256)
    return [(b + k) % 256 for k in range(n)]


def generate(rng, n, tier, pid):
    out = []
    for _ in range(n):
        nops = rng.choice([6, 12, 25, 50])
        exists = [False] * NOBJ
        slots = [[] for _ in range(NOBJ)]   # per object: list of pending lengths (None = filled / empty)
        toks = ["@0:new"]
        exists[0] = True
        multi = pid in ("C20", "C05", "C10") or rng.chance(1, 3)
        for _ in range(nops):
            live = [i for i in range(NOBJ) if exists[i]]
            if not live:
                i = rng.below(NOBJ)
                toks.append(f"@{i}:new")
                exists[i] = True
                slots[i] = []
                continue
            i = rng.choice(live)
            k = rng.weighted([(6, "pc"), (5, "pu"), (3, "pb"), (2, "ex"), (3, "an"), (5, "rp"), (6, "bf"), (4, "cs"), (4, "ab"), (1, "pf"),
                              (3, "rd"), (1, "cl"), (1, "fl"), (1, "ec"), (1, "ta"), (1, "sa"),
                              (3 if multi else 0, "cn"), (2 if multi else 0, "tk"), (2 if multi else 0, "dr"), (1 if multi else 0, "new")])
            if k == "an" and rng.chance(1, 3):
                # a short read: the reader holds fewer bytes than read_n is asked for (sometimes none at all)
                b = rand_bytes(rng) if rng.chance(3, 4) else []
                toks.append(f"@{i}:an:{hexs(b)}:{len(b) + rng.choice([1, 5, 100, 3000, 5000])}")
            elif k in ("pc", "pu", "pb", "an"):
                toks.append(f"@{i}:{k}:{hexs(rand_bytes(rng))}")
            elif k == "ex":
                toks.append(f"@{i}:ex:" + ",".join(hexs(rand_bytes(rng, False)) for _ in range(rng.range(1, 3))))
            elif k == "rp":
                ln = rng.weighted([(5, 1), (5, 2), (2, 3), (1, 0), (1, 70)])
                toks.append(f"@{i}:rp:{hexs([0] * ln)}")
                slots[i].append(ln if ln else None)
            elif k == "bf":
                pend = [s for s, l in enumerate(slots[i]) if l is not None]
                if not pend:
                    continue
                s = rng.choice(pend)
                toks.append(f"@{i}:bf:{s}:{hexs([0xB0 + (s % 16)] * slots[i][s])}")
                slots[i][s] = None
            elif k in ("cs", "ab", "rd"):
                toks.append(f"@{i}:{k}:{rng.choice([0, 1, 2, 3, 5, 63, 64, 65, 300, 100000])}")
            elif k == "pf":
                # pop_front panics when nothing is consumable (documented): make sure a hole-free slice is there,
                # otherwise the history would end here
                if any(l is not None for l in slots[i]):
                    continue
                toks.append(f"@{i}:pb:{hexs(rand_bytes(rng, False))}")
                toks.append(f"@{i}:pf")
            elif k == "cl":
                toks.append(f"@{i}:cl")
                slots[i] = []
            elif k in ("fl", "ta", "sa"):
                toks.append(f"@{i}:{k}")
            elif k == "ec":
                toks.append(f"@{i}:ec:{rng.choice([1, 100, 4096, 5000, 70000])}")
            elif k in ("cn", "tk"):
                if k == "cn" and any(l is not None for l in slots[i]):
                    continue      # clones are taken only when no placeholder is pending: a clone shares the
                                  # memory a later backfill writes to (documented; C20 excludes it)
                j = rng.below(NOBJ)
                if j == i:
                    continue
                toks.append(f"@{i}:{k}:{j}")
                exists[j] = True
                slots[j] = list(slots[i]) if k == "tk" else []
                if k == "tk":
                    slots[i] = []
            elif k == "dr":
                toks.append(f"@{i}:dr")
                exists[i] = False
            elif k == "new":
                j = rng.below(NOBJ)
                toks.append(f"@{j}:new")
                exists[j] = True
                slots[j] = []
        # epilogue: fill what is pending, then read everything out, then drop
        for i in range(NOBJ):
            if exists[i]:
                for s, l in enumerate(slots[i]):
                    if l is not None and rng.chance(3, 4):
                        toks.append(f"@{i}:bf:{s}:{hexs([0xC0 + (s % 16)] * l)}")
                toks.append(f"@{i}:rd:100000")
        for i in range(NOBJ):
            if exists[i] and rng.chance(1, 2):
                toks.append(f"@{i}:dr")
        out.append(" ".join(toks))
    return out


def shrink_candidates(line):
    t = line.split()
    return [" ".join(t[:i] + t[i + 1:]) for i in range(1, len(t))][:64]


def explain(bad):
    return {"spec": "bytes handed to the consumer followed by the bytes still buffered equal the bytes appended since the last clear, with backfilled placeholders in place; total_size = appended - consumed; consuming calls report what they removed; no empty slice; views never reach a pending placeholder; clones/taken objects are independent"}
