#!/usr/bin/env python3
"""Development aid: run one family's generated cases through harness and model and show the first differences.
usage: try_family.py <family> <pid> <n> [tier] [seed]"""
import sys, os, json
sys.path.insert(0, os.path.dirname(os.path.abspath(__file__)))
from core import *  # noqa
import runner


def main():
    fam = runner.family_module(sys.argv[1])
    pid, n = sys.argv[2], int(sys.argv[3])
    tier = sys.argv[4] if len(sys.argv) > 4 else "quick"
    seed = int(sys.argv[5]) if len(sys.argv) > 5 else 1
    ok, log = coq_make([f"theories/run/{fam.RUNFILE}.vo"])
    if not ok:
        print(log[-3000:])
        return 1
    okb, blog = cargo_build()
    if not okb:
        print(blog[-3000:])
        return 1
    rng = Rng(seed)
    cases = fam.generate(rng, n, tier, pid)
    print(len(cases), "cases")
    impl, model = runner.correspond(pid, fam, cases, os.path.join(CACHE, "run", "try_" + fam.NAME))
    d = runner.diff_cases(pid, fam, cases, impl, model)
    print(len(d), "differences")
    for x in d[:3]:
        vi = fam.view_im(pid, x["case"], x["impl"], False) if hasattr(fam, "view_im") else x["impl"]
        vm = fam.view_im(pid, x["case"], x["model"], True) if hasattr(fam, "view_im") else x["model"]
        print("CASE", x["case"][:600], "profile", x["profile"], "pred", x.get("predicate_failed"))
        for k, (a, b) in enumerate(zip(vi, vm)):
            if a != b:
                print(" first differing step", k, "op", x["case"].split()[k] if k < len(x["case"].split()) else "?")
                print("  impl ", json.dumps(a)[:1500])
                print("  model", json.dumps(b)[:1500])
                break
        else:
            print(" lengths", len(vi), len(vm))
    if os.environ.get("SHOW"):
        j = int(os.environ["SHOW"])
        print("SAMPLE", cases[j][:500])
        vi = fam.view_im(pid, cases[j], impl["debug"][j], False)
        vm = fam.view_im(pid, cases[j], model[j], True)
        for a, b in list(zip(vi, vm))[:8]:
            print("  impl ", json.dumps(a)[:600])
            print("  model", json.dumps(b)[:600])
    if hasattr(fam, "stats"):
        print(fam.stats(cases, impl["debug"]))
    return 0


if __name__ == "__main__":
    sys.exit(main())
