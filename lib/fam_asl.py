"""Family `asl` (C05, C17): ByteArena::read_n and the AnchoredSlice operations (skip_prefix, drop_suffix, split_at, take,
clone, drop) against the geometry-faithful model (iovec/Geo.v): after every operation every slice's chunk creation number,
offset, length and bytes, the chunk its own anchor holds, the allocation cache (chunk, capacity, bump) and the live chunk /
byte counters are compared; the harness also checks that every non-empty slice lies inside the chunk its own anchor holds."""
from core import gbytes_smart as gbytes, glist, hexs
from fam_iovw import hash_bytes, hexb

NAME = "asl"
RUNFILE = "RunAsl"
PREAMBLE = ("From Coq Require Import NArith ZArith List. Import ListNotations. Open Scope N_scope.\n"
            "From WP Require Import iovec.Geo run.RunAsl run.Hex.")
RUNNER = "run_asl"
FIELDS = ["per op: [ok, return value]", "per slot 0..5: [] | [chunk#, offset, len, anchor chunk#, bytes...]", "cache [chunk#, cap, bump]",
          "[live chunks, live bytes, every slice inside the chunk its own anchor holds]"]
SHARD = 150
NSLOT = 6
BLOCK = 1 + NSLOT + 2


def coq_term(line):
    t = []
    for tok in line.split():
        p = tok.split(":")
        k = p[0]
        if k == "rn":
            t.append(f"ARead {p[1]}%nat {gbytes(hexb(p[2]))} {p[3]}")
        elif k == "sp":
            t.append(f"ASkip {p[1]}%nat {p[2]}")
        elif k == "ds":
            t.append(f"ADropSuffix {p[1]}%nat {p[2]}")
        elif k == "sa":
            t.append(f"ASplit {p[1]}%nat {p[2]} {p[3]}%nat")
        elif k == "tk":
            t.append(f"ATake {p[1]}%nat {p[2]}%nat")
        elif k == "cn":
            t.append(f"AClone {p[1]}%nat {p[2]}%nat")
        elif k == "dr":
            t.append(f"ADrop {p[1]}%nat")
        elif k == "fl":
            t.append("AFlush")
        elif k == "ec":
            t.append(f"AEnsure {p[1]}")
        else:
            raise ValueError(k)
    return glist(t)


def canon(obs, is_model):
    out, k = [], 0
    while k < len(obs):
        if obs[k] == [99] or len(obs) - k < BLOCK:
            out.append([99])
            break
        b = obs[k:k + BLOCK]
        k += BLOCK
        slots = []
        for f in b[1:1 + NSLOT]:
            if not f:
                slots.append(None)
            elif is_model:
                slots.append([f[:4], f[4:]])
            else:
                slots.append([f[:4], hash_bytes(f[4:])])
        out.append([b[0], slots, b[1 + NSLOT], b[2 + NSLOT][:2]])
    return out


def view_im(pid, case, obs, is_model):
    return canon(obs, is_model)


def cross_checks(pid, case, impl_obs, model_obs):
    k = 0
    n = 0
    while k + BLOCK <= len(impl_obs) and impl_obs[k] != [99]:
        g = impl_obs[k + BLOCK - 1]
        if len(g) > 2 and g[2] != 1:
            return f"op {n}: a slice does not lie inside the chunk its own anchor holds"
        k += BLOCK
        n += 1
    return None


def nontrivial(case, obs):
    return "sa:" in case and case.count("rn:") >= 2


def stats(cases, obs):
    st = {"ops": 0, "splits": 0, "reads": 0, "short_reads": 0}
    for c in cases:
        for tok in c.split():
            st["ops"] += 1
            if tok.startswith("sa:"):
                st["splits"] += 1
            if tok.startswith("rn:"):
                st["reads"] += 1
                p = tok.split(":")
                if int(p[3]) > len(hexb(p[2])):
                    st["short_reads"] += 1
    return st


def generate(rng, n, tier, pid):
    out = []
    for _ in range(n):
        live = [False] * NSLOT
        toks = []
        for _ in range(rng.choice([4, 8, 16, 30])):
            used = [i for i in range(NSLOT) if live[i]]
            k = rng.weighted([(5, "rn"), (3 if used else 0, "sp"), (3 if used else 0, "ds"), (4 if used else 0, "sa"),
                              (1 if used else 0, "tk"), (2 if used else 0, "cn"), (2 if used else 0, "dr"), (1, "fl"), (1, "ec")])
            if k == "rn":
                i = rng.below(NSLOT)
                ln = rng.weighted([(4, rng.range(1, 40)), (2, rng.range(60, 300)), (1, rng.range(4000, 4200)), (1, 0)])
                b0 = rng.below(256)
                data = [(b0 + j) % 256 for j in range(ln)]
                count = ln + rng.weighted([(3, 0), (2, rng.range(1, 8)), (1, rng.choice([100, 4096, 5000]))])
                toks.append(f"rn:{i}:{hexs(data)}:{count}")
                live[i] = True
            elif k in ("sp", "ds"):
                toks.append(f"{k}:{rng.choice(used)}:{rng.choice([0, 1, 2, 5, 39, 40, 300, 18446744073709551615])}")
            elif k == "sa":
                i, j = rng.choice(used), rng.below(NSLOT)
                if i == j:
                    continue
                toks.append(f"sa:{i}:{rng.choice([0, 1, 2, 7, 39, 40, 41, 100, 5000])}:{j}")
                live[j] = True
            elif k in ("tk", "cn"):
                i, j = rng.choice(used), rng.below(NSLOT)
                if i == j:
                    continue
                toks.append(f"{k}:{i}:{j}")
                live[j] = True
            elif k == "dr":
                i = rng.choice(used)
                toks.append(f"dr:{i}")
                live[i] = False
            elif k == "fl":
                toks.append("fl")
            else:
                toks.append(f"ec:{rng.choice([1, 100, 4096, 5000])}")
        for i in range(NSLOT):
            if live[i] and rng.chance(2, 3):
                toks.append(f"dr:{i}")
        out.append(" ".join(toks))
    return out


def shrink_candidates(line):
    t = line.split()
    return [" ".join(t[:i] + t[i + 1:]) for i in range(len(t))][:64]


def explain(bad):
    return {"spec": "every AnchoredSlice reads the bytes the reader delivered (minus skipped prefix / dropped suffix; the two halves after split_at), lies inside the chunk its own anchor holds, and a chunk is live exactly while a slice's anchor or the arena's cache holds it"}


def semantic(case, obs, is_model):
    """Return values, lengths and bytes of every slot -- not chunk numbers, offsets, cache."""
    out = []
    for b in canon(obs, is_model):
        if b == [99]:
            out.append(b)
            break
        out.append([b[0], [None if sl is None else [sl[0][2], sl[1]] for sl in b[1]]])
    return out
