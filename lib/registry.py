"""Property registry: which families decide which property, how many cases per tier, level texts."""

TRUSTED_BASE = [
    "Coq 8.16.1 kernel (coqc, full .vo build); vm_compute is used by the correspondence evaluation and by *_refuted witnesses; no native_compute",
    "lib/translate.py: constants, parameter records and atomic access sequences read from /repo's working tree into coq/gen/*.v on every run",
    "correspondence check: harness/ (Rust, drives the real crates with --cfg woodpile_verif) vs. the Coq model evaluated inside coqc on the same cases; printers on both sides",
    "the faithful Gallina models are hand-written: their agreement with the Rust is as strong as the correspondence streams",
    "no extraction is used; no axiom is declared by the development",
]

HOOK_COMMITS = ["b18f4f3", "f3e0595", "ad52d71", "3322ab3"]
NOT_YET = {}

HCOBS_RULE = "exhaustive: every string over {FE, FD, 00} up to length 6 (quick) / 8 (thorough) at limits (3,5) and (1,1), unsplit and split in two with different methods and drains; random histories at tiny limits (3,5) (1,1) (2,3) (1,2) (4,4) (5,3) through the verif_hooks wrappers and at the production limits through the real Encoder/Decoder: messages of random / FE-FD-rich / FE-FD-only bytes, lengths 0-40, around 252, up to 1200, and (every 40th quick case, all thorough) around 64008, 252+64008 and 252+2*64008 with FE/FD planted at the limits; up to 6 pieces per side via borrow / copy / anchored / read, interleaved with consume-slices / advance-bytes / Read drains; a fifth of the cases feed malformed bytes to the decoder (truncated, out-of-radix, trailing, flipped, random); distinct = distinct case line; non-trivial = at least two encode calls or at least two chunks"
HCOBS_NOTE = "Trusted: Coq kernel; the hand-written sink-level encoder model and decoder model (tied by correspondence, including per-call (cur, mid, max) through hook verif_hooks); OwningIovec as an abstract cell sequence with placeholders (its own correctness is C03/C04); translator for RADIX / STUFF_SEQUENCE / PROD_PARAMS."
HCOBS_ASSUME = ["the four input methods are byte-equivalent at the sink (borrowed vs copied vs anchored memory is C05's concern)", "OwningIovec delivers appended bytes in order with backfilled placeholders (C03/C04)"]

IOV_RULE = "random world histories of 6-50 operations over up to four OwningIovecs: push / push_copy / push_borrowed / extend / anchored push / register_patch (lengths 0,1,2,3,70) / backfill of a random pending slot / consume / advance_slices / pop_front / Read with counts {0,1,2,3,5,63,64,65,300,100000} / clear / arena flush, ensure_capacity, take, swap / clone / take / drop / new, slice sizes 1-4, 5-40, 60-70, 250-262, 300-3000, 4090-4100, followed by filling most pending placeholders and reading everything out; distinct = distinct case line; non-trivial = two placeholders pending in one object or two objects live at some point"
IOV_NOTE = "Trusted: Coq kernel; the hand-written value-level model (bytes by value; where a push lands -- new slice or merged -- is taken from the implementation, and every theorem holds for all merge decisions); the backref table as a list of pending entries (SortedDeque is C16); hook verif_view reads private fields."
IOV_ASSUME = ["fewer than 2^64 bytes and slices per history", "Backref handles are used with the iovec state they came from and not across clear() (DESIGN.md O3)"]

PROPS = {
    "C14": {
        "families": ["win"],
        "n": {"quick": {"win": 6000}, "thorough": {"win": 120000}},
        "rule": "boundary lattice (local-base in {-59901,-59900,-59899,-1,0,1,2989,2990,2991} x bases at 0, 2^63, 2^64-k) plus SplitMix64-random triples; distinct = distinct case line; non-trivial = the voucher is valid so the window rule alone decides",
        "level_text": "Theorem C14_new_iff: in the faithful model of VouchedTime::check/new, construction succeeds iff the voucher checks, local_ms >= 0 and -59900 <= local_ms - base <= 2990 in unbounded Z arithmetic, for all base times and all local times (no panic, get_local_time returns the input, now() applies new()); the window constants are the ones translated from the source and pinned to 2990/59900. The model is tied to the code by running both on a boundary lattice and random triples (debug and release).",
        "level_note": "Trusted: Coq kernel; the hand-written model of check_vouched_time (tied by correspondence); raffle's check as an oracle; the time crate's date<->nanos conversion; translator for the two constants.",
        "design_ref": "DESIGN.md section 7, C14",
        "assumptions": [
            "raffle's CheckingParameters::check is an oracle (Section variable vch); the harness feeds vouchers for the right value, another value and other parameters",
            "time crate: PrimitiveDateTime <-> unix nanoseconds conversion is not verified (the harness uses the same API to build the local time)",
        ],
    },
    "C15": {
        "families": ["sdq"],
        "n": {"quick": {"sdq": 1500}, "thorough": {"sdq": 40000}},
        "rule": "all histories of length <= 5 (quick) / 6 (thorough) over {push_back, pop_front, pop_back, advance 1, advance 2, clear, slide, write 0} from three starting containers, alternating Vec and SmallVec<[i64;4]> backings, plus random histories of 8-200 operations with advance counts up to usize::MAX; distinct = distinct case line; non-trivial = a consumed prefix was held at some point",
        "level_text": "Theorem C15_sliding_refines_list: for every operation history from any starting container the faithful model of SlidingDeque (check_rep as explicit Panic) never panics, returns exactly what a list deque returns, exposes the list as its view, and keeps 2*consumed <= container length and (empty => consumed = 0); proved by induction over unbounded histories. Tied to the code by exhaustive short histories and random long ones on Vec and SmallVec backings, debug and release, comparing every result, the view and (through hook verif_rep) the space clause after every operation.",
        "level_note": "Trusted: Coq kernel; the list model of the backing container (Vec/SmallVec correctness, including the inline-to-heap move, is std's/smallvec's); hook verif_rep reads the two private fields.",
        "assumptions": ["Vec<T> and SmallVec<A> behave as a list (push/pop/truncate/slice)", "Item: Copy values carry no ownership (as the trait requires)"],
    },
    "C16": {
        "families": ["sod"],
        "n": {"quick": {"sod": 3000}, "thorough": {"sod": 60000}},
        "rule": "exhaustive: 4 or 5 ascending pushes followed by every sequence of 4 (quick) / 5 (thorough) operations over {remove each key, pop_first, pop_last, push next, push low (panics iff not above last), clear}, then iter/first/last/is_empty; plus random histories of 6-120 operations over keys 0..8 including erased pushes and out-of-order pushes; both item conventions and both backings; after every operation every key 0..8 is looked up; distinct = distinct case line; non-trivial = some remove hit a live key",
        "level_text": "Theorem C16_sorted_refines_map: for every operation history from the empty deque the faithful model of SortedDeque (tombstones, end clean-up, check_rep as Panic) produces exactly the outputs of the ordered-map specification, panics exactly where the specification does (only a live push whose key is not above the last item), and its live items are the map's contents, strictly sorted; the specification is shown to be an ordered map (found iff present, removed never found, first smallest, last largest). Proved by induction over unbounded histories. Tied to the code by exhaustive short and random long histories on both item conventions and both backings, debug and release, with every key looked up after every operation.",
        "level_note": "Trusted: Coq kernel; list semantics of the underlying SlidingDeque (that is C15's theorem); std's binary_search_by returns the unique index with an Equal key on a strictly sorted slice; for the whole-item convention the order must ignore the erased flag (DESIGN.md O4).",
        "assumptions": ["slice::binary_search_by contract on strictly sorted slices", "mark_erased preserves the comparison key (true by construction for (Key, Option<Value>))"],
    },
    "C12": {
        "families": ["tlvv"],
        "n": {"quick": {"tlvv": 8000}, "thorough": {"tlvv": 200000}},
        "rule": "truncation of a valid message at every length; all word-aligned headers with N in {0,1,2} over words {0,1,2} with 0-3 trailing bytes; structured random headers (N in 0..9, N huge / near 2^32, offsets equal / decreasing / past the payload / huge, tags equal / decreasing, trailing bytes, truncation) and raw random bytes; accessors probed at indices 0..N+2 and usize::MAX and at present, absent and neighbouring tags; distinct = distinct case line; non-trivial = accepted message with at least one pair",
        "level_text": "Theorems C12_new_total / C12_new_accepts_iff / C12_get_value / C12_values_tile / C12_get_iter_agree / C12_find: in the byte-level faithful model of MessageView (every slice expression a Panic branch) new never panics on any byte string and accepts exactly the well-formed ones; on accepted input no accessor panics, value i is the i-th slice of the bytes after the header, the values concatenate to those bytes, get/iter/tags agree, every index >= N yields nothing, and find returns the value at an index whose tag is the wanted one (for whichever index binary search picks). Tied to the code by structured, truncated and random byte strings with accessor probes, debug and release.",
        "level_note": "Trusted: Coq kernel; the hand-written byte-level model; std's binary_search contract (returns some index holding the tag iff present) is an oracle whose answer the check validates against the tag array; 64-bit usize.",
        "assumptions": ["slice::binary_search returns Ok(j) with tags[j] == wanted iff the tag is present", "usize is 64 bits"],
    },
    "C11": {
        "families": ["tlvw"],
        "n": {"quick": {"tlvw": 5000}, "thorough": {"tlvw": 100000}},
        "rule": "size-limit lattice around i32::MAX with a size-only value type (1-3 pairs, header + values exactly at / one below / one above the limit, single values at i32::MAX+1, 2^32, 2^63, 2^64-1, saturating totals), plus random pair lists (0-12 pairs, repeated and huge tags, empty values, &[u8] / Cow borrowed / Cow owned / &str / Cow<str>, nesting depth <= 3) through new / new_from_slice / new_from_sorted into a recording sink, an OwningIovec and an HCOBS Encoder (decoded back); distinct = distinct case line; non-trivial = accepted list with at least two pairs",
        "level_text": "Theorems C11_accepts_iff / C11_sorted_rejects_iff / C11_encode_is_layout / C11_sort_stable / C11_view_round_trip: in the faithful model of MessageWrapper construction succeeds iff count, every value length and header+values are <= i32::MAX (new_from_sorted additionally iff no tag decreases); encode never trips its assertions, writes exactly the Roughtime layout of the stably tag-sorted pairs, rough_tlv_len bytes of it; and C12's MessageView model accepts those bytes and iterates exactly the sorted pairs. Tied to the code by limit lattices with a size-only value type and random nested pair lists through all three constructors into three sinks.",
        "level_note": "Trusted: Coq kernel; the hand-written model; slice::sort_by_key is a stable sort (modelled by insertion sort; uniqueness of the stable sort is proved); 64-bit usize; more than i32::MAX pairs cannot be materialised in the harness (that branch is covered by the theorem only).",
        "assumptions": ["slice::sort_by_key is a stable sort", "ToRoughTLV implementors honour rough_tlv_len = bytes written (proved for nested MessageWrapper values)", "usize is 64 bits"],
    },
    "C17": {
        "families": ["readn"],
        "n": {"quick": {"readn": 3000}, "thorough": {"readn": 60000}},
        "rule": "all reader scripts of length <= 4 (quick; a fifth of length 4) / <= 6 (thorough) over {Deliver 1, Deliver 2, Deliver 5, Interrupted, EOF, other error} x count in {0,1,2,3,7} x max_attempts in {1,2,3,10,usize::MAX}, rotating through ByteArena::read_n, Encoder/Decoder::read_n, encode_read, decode_read and through arena states (no cache, fresh chunk, 2 bytes left); plus random scripts up to 13 events with counts up to 40 and zero-byte deliveries; distinct = distinct case line; non-trivial = at least two reader calls",
        "level_text": "Theorems C17_read_n / C17_succeeds_iff / C17_count_zero: for every reader script, count and attempt limit the faithful model of read_n_impl makes at most max calls, each asking for exactly count minus what was delivered so far, stops at the first end of file or non-interrupt error, returns the bytes delivered in order, succeeds iff something was delivered or the run ended on EOF (otherwise the last error), and for count 0 does not touch the reader; proved by induction over unbounded scripts. Tied to the code by exhaustive short scripts and random ones through ByteArena::read_n and the four codec entry points, in three arena states, debug and release; the harness additionally checks the frame clauses (earlier allocations intact, remaining() accounting, codec output equal to encode/decode of exactly the delivered bytes).",
        "level_note": "Trusted: Coq kernel; the hand-written model of the retry loop; a reader is any script of {deliver k <= asked, Interrupted, EOF, error}; the arena frame and codec-state clauses are checked by the harness against a reference run rather than proved in this model (the arena itself is modelled under C03/C05).",
        "assumptions": ["Read::read never reports more bytes than the buffer it was given"],
    },
    "C01": {
        "families": ["hcobs"],
        "n": {"quick": {"hcobs": 2500}, "thorough": {"hcobs": 40000}},
        "rule": HCOBS_RULE,
        "level_text": "Theorem C01_roundtrip: for all limits 0 < mi <= 252, 0 < ms < 253^2 (instantiated at the production limits translated from the source), every Encoder history of the sink-level faithful model (any segmentation into calls, any drain schedule; the input methods are byte-equivalent) trips no assertion and its complete output, fed to the faithful Decoder model in any segmentation, is accepted and yields exactly the concatenated input. Proved by a refinement chain: sink-level encoder -> chunk-level encoder -> reference chunking (invariant over unbounded histories), decoder loop -> byte-at-a-time semantics -> unstuff o unframe. Tied to the code by exhaustive short messages at tiny limits (hook), random histories at tiny and production limits through all four input methods and three drain operations on both sides.",
        "level_note": HCOBS_NOTE,
        "assumptions": HCOBS_ASSUME,
    },
    "C02": {
        "families": ["hcobs"],
        "n": {"quick": {"hcobs": 2500}, "thorough": {"hcobs": 40000}},
        "rule": HCOBS_RULE,
        "level_text": "Theorems C02_no_stuff / C02_split_independent / C02_length(_prod): the complete output of every Encoder history of the faithful model contains no FE FD, depends only on the concatenated input (not on segmentation or drains), and is at most len + 1 + 2*ceil(len/ms) bytes long (ms = 64008 as translated from the source). Tied to the code as C01; the check additionally evaluates no-FE-FD and the length bound on the implementation's own output.",
        "level_note": HCOBS_NOTE,
        "assumptions": HCOBS_ASSUME,
    },
    "C07": {
        "families": ["hcobs"],
        "n": {"quick": {"hcobs": 2500}, "thorough": {"hcobs": 40000}},
        "rule": HCOBS_RULE,
        "level_text": "Theorems C07_encoder_canonical / C07_reference_in_format / C07_decoder_exact / C07_format_iff / C07_constants: the Encoder model's output is byte for byte frame(stuff(input)) (greedy chunking at the first FE FD or the limit, 1-byte then 2-byte little-endian radix-253 headers, ending on a short chunk); the Decoder model accepts a byte string, in any segmentation, iff it is the framing of a well-formed chunk sequence ending on a short chunk and returns its unstuffing (proved against a direct recursive parser independent of the state machine); RADIX, the stuff sequence and the limits 252/64008 are pinned to the translated source values. Tied to the code by canonical-output comparison and by malformed decoder inputs (truncations, out-of-radix bytes, over-long lengths, trailing bytes, random) at tiny and production limits.",
        "level_note": HCOBS_NOTE,
        "assumptions": HCOBS_ASSUME,
    },
    "C09": {
        "families": ["hcobs"],
        "n": {"quick": {"hcobs": 2500}, "thorough": {"hcobs": 40000}},
        "rule": HCOBS_RULE,
        "level_text": "Theorems C09_encoder_prefix_and_lag / C09_encoder_complete / C09_decoder_prefix / C09_encoder_lag_prod: at every point of every Encoder history of the sink-level model (cells, some of them placeholders) the drained bytes followed by the consumable ones are a prefix of the final output for every continuation, drained ++ finish is the complete output, and the cells not yet consumable are at most 2 + max(mi,ms) (the open chunk and its header); the Decoder model registers no placeholder (lag zero) and its output only grows. PARTIAL at slice level: the implementation exposes whole slices, so its lag additionally includes the arena slice holding the header; that part is checked, not proved: the harness measures total_size - stable bytes after every call against 2^20 + ms + 2 and checks every drained++stable snapshot against the final output.",
        "level_note": HCOBS_NOTE + " The slice-level lag bound (one arena chunk) is measured by the harness, not proved.",
        "assumptions": HCOBS_ASSUME,
    },
    "C08": {
        "families": ["chunk"],
        "n": {"quick": {"chunk": 3000}, "thorough": {"chunk": 60000}},
        "rule": "all streams over {FE, FD, 00} up to length 6 (quick; a third of lengths 5-6) / 9 (thorough) x block sizes {0,1,2,3,5} x three read schedules (full reads, one byte at a time, EINTR-interleaved) x fresh / used arena; plus random streams up to 5000 bytes (FE/FD-only, FE/FD-rich, mostly random) with block sizes 0-5, 6-69, 4096, 512 KiB and random short-read / EINTR schedules; distinct = distinct case line; non-trivial = at least one sentinel and two data chunks",
        "level_text": "Theorems C08_tiling / C08_pump_spec / C08_sentinels_complete: for every stream and every block size (0 and 1 included) the chunk sequence of the faithful pump model ends in exactly one Eof, its Data payloads and one FE FD per Sentinel concatenate to the stream, every offset is the absolute end of its chunk, Data chunks are non-empty and FE FD-free, no FE|FD straddles two consecutive Data chunks, and hence every FE FD found by the left-to-right scan is reported as exactly one Sentinel. The refill is read_n at usize::MAX attempts over carry-then-reader (C17: for schedules of short reads and EINTR it returns min(wanted, available) bytes). Tied to the code by exhaustive small streams x block sizes x schedules and random streams; the check evaluates the tiling predicate on the implementation's own chunk sequence.",
        "level_note": "Trusted: Coq kernel; the pump model; std::io::Chain reads the carry before the reader; read_n's schedule independence is C17's theorem instantiated for schedules without hard errors; hard I/O errors propagate and end the sequence (not part of the property).",
        "assumptions": ["std::io::Chain delivers the first reader completely before the second", "read schedules contain only short reads and Interrupted (hard errors abort pump with Err)"],
    },
    "C06": {
        "families": ["reader"],
        "n": {"quick": {"reader": 3000}, "thorough": {"reader": 60000}},
        "rule": "a five-record log truncated at every byte x block sizes {0,1,3}; all streams over {FE, FD, 00, 01} up to length 5 (quick) / 7 (thorough) with rotating block size, max and limit; random streams built from valid records, torn and corrupted records, garbage, lone FE/FD and delimiter runs, optionally cut at an arbitrary byte, with block sizes 0-69 / 4096 / default, max in {none, 0-8, 9-299}, limit in {none, 0..len+1} and random short-read / EINTR schedules; distinct = distinct case line; non-trivial = at least two records returned",
        "level_text": "Theorem C06_reader_spec (+ C06_valid_record_survives): for every chunk sequence that tiles a stream as C08 proves the chunker's does, successive calls of the faithful next_record_bytes model with the standard judge return exactly spec_records max limit stream (the maximal FE FD-free segments that are valid encodings of at most max bytes, with their exact ranges, stopping at the first segment starting at or after limit) and then None forever, without panicking. Composes C08 (tiling), the decoder exactness theorem (C07) and the record-level lemma (any cutting of a segment into Data pieces gives the whole-segment verdict).",
        "level_note": "Trusted: Coq kernel; the reader model over chunk sequences and the pump model (both tied by correspondence); the standard judge only (a custom judge answering SkipRecord on an empty range trips an assertion: DESIGN.md O2).",
        "assumptions": ["standard chunk_judge", "no hard I/O error from the reader"],
    },
    "C03": {
        "families": ["iovw"],
        "n": {"quick": {"iovw": 1200}, "thorough": {"iovw": 25000}},
        "rule": IOV_RULE,
        "level_text": "Theorems C03_push / C03_register / C03_backfill / C03_consume / C03_advance / C03_read / C03_total_size / C03_no_empty_slice / C03_reachable: the value-level faithful model of OwningIovec (slices of bytes with ghost placeholder marks, the backref table, the three counters) refines a FIFO of cells for every operation and every merge decision: pushes append their bytes, register_patch appends holes, backfill replaces exactly that placeholder's holes, consume / advance_slices / Read remove a prefix of bytes and report exactly what they removed, total_size = |buffer|, no slice is empty; the invariant (table and marks agree, ranges inside their slice, sorted, distinct ids) holds in every reachable state. Tied to the code by random world histories (all producer and consumer operations, arena flush/swap/reserve, clear, take, clone) with sizes around 64 / 256 / 4096, the merge decision of every push taken from the implementation, comparing every return value, total_size, len, slice lengths and all buffered bytes after every operation, debug and release.",
        "level_note": IOV_NOTE,
        "assumptions": IOV_ASSUME,
    },
    "C04": {
        "families": ["iovw"],
        "n": {"quick": {"iovw": 1200}, "thorough": {"iovw": 25000}},
        "rule": IOV_RULE,
        "level_text": "Theorems C04_holes_invisible / C04_observed_stable / C04_ok_iff_no_hole / C04_all_filled / C04_fill_any_order: in every reachable state of the Pipe model the consumable bytes are bytes only and a prefix of the buffer that stops before the first pending placeholder; producer steps (push, register, backfill) only extend the hole-free prefix, so an observable byte never changes; iovs/flatten/stable_consumer succeed iff no hole remains; once the table is empty every buffered byte is consumable; fills of different placeholders commute. Tied to the code as C03, with >= 2 placeholders in flight in a large share of cases and fills in random order; the check additionally verifies on the implementation's output that the exposed bytes are a prefix of the model's hole-free prefix.",
        "level_note": IOV_NOTE,
        "assumptions": IOV_ASSUME,
    },
    "C05": {
        "families": ["anch"],
        "n": {"quick": {"iovw": 1200}, "thorough": {"iovw": 25000}},
        "rule": IOV_RULE,
        "level_text": "Theorem C05_core (+ C05_anchored_window): in the model of GlobalDeque's ownership protocol (slices tagged with the arena chunk they point into, anchors with a slice count and a chunk; copies that join the back anchor or open a new one, borrowed pushes, merges of the last pair, anchored input of any number of pieces followed by its zero-count anchor, consume with its two pop loops, clear) every reachable state satisfies: counts sum to the number of slices and every arena slice is protected by an anchor that holds its chunk and cannot be popped before the slice is consumed; hence a chunk referenced by a remaining slice is held by a remaining anchor (Arc semantics: not released). PARTIAL: memory validity itself (Rust aliasing, provenance, the 'static lie) is not expressible in this model; it is checked, not proved: after every operation the harness verifies that every slice of every object lies inside a live chunk (hook registry) or a caller buffer, debug builds poison released chunks, and the model's anchor list and per-slice chunk ids are compared with the implementation's (hook verif_view).",
        "level_note": "Trusted: Coq kernel; the ownership model (tied by exact comparison of anchors and per-slice chunks after every operation, the operation sequence being derived from the implementation's observations); Arc (a chunk is released when its last holder goes); the hook registry of live chunk ranges. Not modelled: undefined behaviour in the Rust sense.",
        "assumptions": ["Arc<Chunk> releases the chunk exactly when the last clone is dropped", "caller-provided buffers outlive the iovec (borrow checker)"],
    },
    "C10": {
        "families": ["anch", "hint"],
        "n": {"quick": {"iovw": 1200, "hint": 3000}, "thorough": {"iovw": 25000, "hint": 100000}},
        "rule": IOV_RULE,
        "level_text": "Theorems C10_find_hint_size / C10_live_iff_held / C10_no_leak: the model of the arena size policy (find_hint_size over the translated size sequence) returns a capacity >= the request, strictly larger than the previous chunk below 1 MiB and never above max(1 MiB, request rounded up to 4 KiB), so at most |sequence| sub-MiB chunks are ever created per arena; in the ownership model a chunk is live exactly while some anchor or cache holds it and nothing is live once every holder is gone. PARTIAL: the streaming footprint bound is measured, not proved: after every operation of every history the harness compares the process-wide live chunk counter with the number of chunks referenced by any anchor or allocation cache of any object (a hidden holder or a stuck anchor shows as a numeric disagreement) and checks that it returns to zero when every object is dropped; the thorough tier streams hundreds of MiB through an Encoder and records the peak of live bytes.",
        "level_note": "Trusted: Coq kernel; Arc; the global counters NUM_LIVE_CHUNKS / NUM_LIVE_BYTES (single-threaded harness process); the system allocator and RSS are not modelled.",
        "assumptions": ["single-threaded harness process, counters start from a recorded baseline"],
    },
    "C20": {
        "families": ["iovw"],
        "n": {"quick": {"iovw": 1200}, "thorough": {"iovw": 25000}},
        "rule": IOV_RULE + "; for C20 every history has several objects, clones are taken when no placeholder is pending, and either side may be dropped first",
        "level_text": "Theorems C20_step / C20_history / C20_clone_independent / C20_take: in the world model (several iovecs over one mutable heap of arena chunks; slices are pointers; copies are written in place at the bump pointer of the writer's own cache, merging with an adjacent last slice or opening a new chunk; a clone copies pointers and has no cache; a backfill overwrites one of its owner's pending placeholders) every valid operation leaves the bytes of every object it does not target unchanged and preserves the frame invariant (caches own distinct chunks, every slice ends at or below the bump pointer of the cache owning its chunk) and the placeholder invariant (a pending placeholder lies inside a slice of its owner and is disjoint from every slice of every other object); hence, for every history after a hole-free clone, operations on the original (or anything else) never change the clone and vice versa; take() moves the whole state. Tied to the code by world histories with clone / take / drop: the value-level model predicts every object's contents after every operation, and the check verifies on the implementation that untargeted objects do not change and that the frame invariant holds on the observed slices and caches (hook).",
        "level_note": "Trusted: Coq kernel; the reduced world model (fixed chunk capacity, arena slices only; borrowed memory is immutable while borrowed, by the borrow checker); run-time aliasing rules of Rust are outside the model (see C05).",
        "assumptions": ["clones are taken only when no placeholder is pending (the property's precondition; a clone shares the memory a later backfill of the original writes to)"],
    },
}
