"""Ownership-level view of family `iovw` (C05, C10): the anchor deque of every object.
The harness run is the same as fam_iovw's; the model is iovec/Anchors.v, driven by the operation
sequence derived from the implementation's own observations (which chunk a copy landed in, whether
the last pair was merged, how many whole slices a consuming call removed)."""
from core import glist
import fam_iovw

NAME = "iovw"
RUNFILE = "RunAnch"
PREAMBLE = ("From Coq Require Import NArith ZArith List. Import ListNotations.\n"
            "From WP Require Import iovec.Anchors run.RunAnch.")
RUNNER = "run_anch"
FIELDS = fam_iovw.FIELDS + ["model: per op, per object: anchors (count, chunk#)*, chunk# per slice, [invariant holds]"]
SHARD = 150
NOBJ = 4
MODEL_BLOCK = 3 * NOBJ

parse = fam_iovw.parse
hexb = fam_iovw.hexb
generate = fam_iovw.generate
shrink_candidates = fam_iovw.shrink_candidates
stats = fam_iovw.stats
nontrivial = fam_iovw.nontrivial


def impl_norm(case, obs):
    return fam_iovw.normalise(case, obs, False)


def coq_term_with_obs(line, obs):
    ops = parse(line)
    blocks = impl_norm(line, obs)
    terms = []
    prev = None
    for n, (i, p) in enumerate(ops):
        blk = blocks[n] if n < len(blocks) and "objs" in blocks[n] else None
        if blk is None:
            break
        k = p[0]
        ob = blk["objs"][i]
        pb = prev["objs"][i] if prev else None
        len_a = ob["hdr"][1] if ob["hdr"] else 0
        len_b = pb["hdr"][1] if pb and pb["hdr"] else 0
        cids = ob["extra"][1][0::2] if ob["hdr"] else []
        anch = ob["extra"][0] if ob["hdr"] else []
        last_c = cids[-1] if cids else 0
        lops = None
        if k == "new":
            t = "ANew"
        elif k == "dr":
            t = "ADrop"
        elif k == "cn":
            t = f"AClone {p[1]}"
        elif k == "tk":
            t = f"ATake {p[1]}"
        elif k in ("pc", "rp", "pu", "pb"):
            data = hexb(p[1])
            if not data:
                lops = []
            elif k in ("pc", "rp") or (k == "pu" and last_c != 0):
                lops = [f"OpCopy {last_c}"] + (["OpCollapse"] if len_a == len_b else [])
            else:
                lops = ["OpBorrow"] + (["OpCollapse"] if len_a == len_b else [])
        elif k == "ex":
            lops = ["OpBorrow" for h in p[1].split(",") if hexb(h)]
        elif k == "an":
            data = hexb(p[1])
            if not data:
                # nothing delivered: only the anchor is queued (a default one when nothing was asked for)
                src = anch[-1] if anch else 0
                lops = [f"OpAnchored {src} []" if src != 0 else "OpIdle"]
            else:
                copied = blk["raw_ret"][1] == 1 if len(blk["raw_ret"]) > 1 else False
                src = anch[-1] if anch else 0              # the anchor pushed last holds the source chunk
                subs = [f"SubCopy {last_c}" if copied else "SubBorrow"] + (["SubCollapse"] if len_a == len_b else [])
                lops = [f"OpAnchored {src} {glist(subs)}"]
        elif k in ("cs", "pf"):
            lops = [f"OpConsume {max(0, len_b - len_a)}"]
        elif k in ("ab", "rd"):
            # byte-wise consumption calls GlobalDeque::consume only when a whole slice goes (consume(0), which would
            # drop zero-count anchors at the front, is not reached)
            lops = [f"OpConsume {len_b - len_a}"] if len_b > len_a else []
        elif k == "cl":
            lops = ["OpClear"]
        else:
            lops = []
        if lops is not None:
            t = "AOps " + glist(lops)
        terms.append(f"({i}, {t})")
        prev = blk
    return glist(terms)


def model_norm(obs):
    out = []
    for k in range(0, len(obs) - MODEL_BLOCK + 1, MODEL_BLOCK):
        blk = obs[k:k + MODEL_BLOCK]
        out.append([{"anchors": blk[3 * j], "cids": blk[3 * j + 1], "inv": blk[3 * j + 2]} for j in range(NOBJ)])
    return out


def protected_ok(anchors, cids):
    """The invariant of Anchors.v evaluated on an observation: counts sum to the number of slices and every
    arena slice p of chunk c has an anchor q holding c with p < sum of the first q+1 counts."""
    counts, chunks = anchors[0::2], anchors[1::2]
    if sum(counts) != len(cids):
        return False
    pref, acc = [], 0
    for c in counts:
        acc += c
        pref.append(acc)
    for p, c in enumerate(cids):
        if c != 0 and not any(chunks[q] == c and p < pref[q] for q in range(len(counts))):
            return False
    return True


def view_im(pid, case, obs, is_model):
    out = []
    if is_model:
        for blk in model_norm(obs):
            if pid == "C05":
                out.append([[o["anchors"], o["cids"], o["inv"] != [0]] for o in blk])
            else:
                out.append([[o["anchors"]] for o in blk])
        return out
    blocks = impl_norm(case, obs)
    ops = parse(case)
    for n, b in enumerate(blocks):
        if "objs" not in b:
            # the only operation of the generator that may legitimately panic is pop_front on an
            # iovec without a consumable slice; any other panic in a valid history is reported
            if n < len(ops) and ops[n][1][0] != "pf":
                out.append(["PANIC", ops[n][1][0]])
            break
        row = []
        for o in b["objs"]:
            if not o["hdr"]:
                row.append([[], [], True] if pid == "C05" else [[]])
            elif pid == "C05":
                row.append([o["extra"][0], o["extra"][1][0::2], protected_ok(o["extra"][0], o["extra"][1][0::2])])
            else:
                row.append([o["extra"][0]])
        out.append(row)
    return out


def cross_checks(pid, case, impl_obs, model_obs):
    blocks = impl_norm(case, impl_obs)
    ops = parse(case)
    for n, b in enumerate(blocks):
        if "objs" not in b:
            break
        live, _, mem_ok = b["glob"]
        if pid == "C05" and mem_ok != 1:
            return f"op {n}: a slice reachable through the read side lies outside live memory"
        if pid == "C05":
            for j, o in enumerate(b["objs"]):
                if o["hdr"] and not protected_ok(o["extra"][0], o["extra"][1][0::2]):
                    return f"op {n}: object {j} has an arena slice that no remaining anchor protects"
        if pid == "C10":
            held = set()
            for o in b["objs"]:
                if o["hdr"]:
                    held |= {c for c in o["extra"][0][1::2] if c}
                    if o["extra"][2]:
                        held.add(o["extra"][2][0])
            if live != len(held):
                return f"op {n}: {live} chunks are live but {len(held)} are referenced by an anchor or an allocation cache"
    if pid == "C10" and blocks and "objs" in blocks[-1] and len(blocks) == len(ops):
        if all(not o["hdr"] for o in blocks[-1]["objs"]) and blocks[-1]["glob"][:2] != [0, 0]:
            return "every object was dropped but arena chunks are still live"
    return None


def advisory_diff(case, impl, model):
    return False


def explain(bad):
    return {"spec": "every arena slice still buffered is covered by an anchor that holds its chunk and is popped no earlier than the slice is consumed; chunks are live exactly while an anchor or an allocation cache references them; all chunks are released once every object is dropped"}
