"""Family `readn` (C17): scripted readers against ByteArena::read_n and the codec wrappers."""
import itertools
from core import gbytes, glist, hexs

NAME = "readn"
RUNFILE = "RunReadn"
PREAMBLE = ("From Coq Require Import NArith ZArith List. Import ListNotations. Open Scope N_scope.\n"
            "From WP Require Import io.ReadN run.RunReadn.")
RUNNER = "run_readn"
FIELDS = ["[0,got] | [1,kind 1=Interrupted 2=other]", "bytes returned", "request size of every reader call",
          "[events consumed]", "impl only: frame flags (earlier slice intact, remaining() accounting, codec state)"]
SHARD = 3000
USIZE_MAX = (1 << 64) - 1
ENC_STREAM = [0x41, 0xFE, 0xFD, 0x42, 0xFE, 0x43, 0x44, 0x45, 0x46]
DEC_STREAM = [0x06, 1, 2, 0xFE, 4, 5, 6, 0x00, 0x00]


def parse(line):
    t = line.split()
    return t[0], t[1], int(t[2]), int(t[3]), list(bytes.fromhex(t[4])), t[5:]


def coq_ev(e):
    if e[0] == "D":
        return f"Deliver {e[1:]}"
    return {"I": "Interrupted", "E": "EofEv", "F": "Fail 13"}[e[0]]


def coq_term(line):
    via, state, count, mx, stream, evs = parse(line)
    return f"({count}, {mx}, {glist([coq_ev(e) for e in evs])}, {gbytes(stream)})"


def view(pid, case, obs):
    if len(obs) == 5:
        return obs[:4] + [all(x == 1 for x in obs[4])]
    if len(obs) == 4:
        return obs + [True]
    return obs


def nontrivial(case, obs):
    # non-trivial: at least two reader calls were made
    return len(obs) > 2 and len(obs[2]) >= 2


def stats(cases, obs):
    st = {}
    for c, o in zip(cases, obs):
        via = c.split()[0]
        st["via_" + via] = st.get("via_" + via, 0) + 1
        k = "ok" if o and o[0] and o[0][0] == 0 else ("err" if o and o[0] and o[0][0] == 1 else "other")
        st["res_" + k] = st.get("res_" + k, 0) + 1
        if o and o[0] == [0, 0]:
            st["ok_empty"] = st.get("ok_empty", 0) + 1
    return st


def generate(rng, n, tier, pid):
    out = []
    alpha = ["D1", "D2", "D5", "I", "E", "F"]
    L = 4 if tier == "quick" else 6
    vias = ["arena", "enc", "dec", "encread", "decread"]
    states = ["none", "fresh", "tight"]
    k = 0
    for ln in range(0, L + 1):
        for evs in itertools.product(alpha, repeat=ln):
            for count in (0, 1, 2, 3, 7):
                for mx in (1, 2, 3, 10, USIZE_MAX):
                    k += 1
                    if tier == "quick" and (k % 6) and ln == L:
                        continue
                    via = vias[len(out) % 5]
                    state = states[(len(out) // 5) % 3]
                    stream = DEC_STREAM if via.startswith("dec") else ENC_STREAM
                    out.append(f"{via} {state} {count} {mx} {hexs(stream)} " + " ".join(evs))
    for _ in range(n):
        via = rng.choice(vias)
        stream = [rng.below(256) for _ in range(48)] if not via.startswith("dec") else DEC_STREAM + [rng.below(256) for _ in range(40)]
        if rng.chance(1, 3):
            stream = [rng.choice([0xFE, 0xFD, 0x00, 0x03]) for _ in range(48)]
        count = rng.choice([0, 1, 2, 3, 5, 8, 13, 39, 40])
        mx = rng.choice([1, 2, 3, 5, 50, USIZE_MAX])
        evs = [rng.weighted([(5, f"D{rng.range(1, 9)}"), (3, "I"), (1, "E"), (1, "F"), (1, "D0")]) for _ in range(rng.below(14))]
        out.append(f"{via} {rng.choice(states)} {count} {mx} {hexs(stream)} " + " ".join(evs))
    return out


def shrink_candidates(line):
    t = line.split()
    return [" ".join(t[:i] + t[i + 1:]) for i in range(5, len(t))]


def explain(bad):
    return {"spec": "at most max reader calls; every call asks for count - got; stops at EOF or the first non-interrupt error; Ok(bytes delivered so far) unless nothing was delivered and an error is pending; count 0 reads nothing; codec output unaffected apart from the bytes read"}
