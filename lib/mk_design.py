#!/usr/bin/env python3
"""Fills the generated parts of DESIGN.md (per-property section from the registry and props files;
seeded-campaign table from seeded/*/outcome.json)."""
import json, os, re, glob, sys
sys.path.insert(0, os.path.dirname(__file__))
import registry

VERIF = os.path.dirname(os.path.dirname(os.path.abspath(__file__)))


def props_section():
    titles = {}
    for l in open(os.path.join(VERIF, "properties.jsonl")):
        p = json.loads(l)
        titles[p["id"]] = p["title"]
    out = []
    for pid in sorted(registry.PROPS):
        P = registry.PROPS[pid]
        src = open(os.path.join(VERIF, "coq", "theories", "props", pid + ".v")).read()
        thms = re.findall(r"^Theorem ([A-Za-z0-9_]+)", src, re.M)
        out.append(f"### {pid} - {titles.get(pid, '')}\n")
        out.append("Theorems (`coq/theories/props/%s.v`): %s.\n" % (pid, ", ".join("`%s`" % t for t in thms)))
        out.append(P["level_text"] + "\n")
        fams = ", ".join("`%s` (%s quick / %s thorough cases)" % (f, P["n"]["quick"].get(f, "?"), P["n"]["thorough"].get(f, "?"))
                         for f in P["n"]["quick"])
        out.append("Correspondence: " + fams + ".  Cases: " + P["rule"] + ".\n")
        out.append(P["level_note"] + "\n")
        if P.get("assumptions"):
            out.append("Assumptions: " + "; ".join(P["assumptions"]) + ".\n")
    return "\n".join(out)


def seeded_section():
    rows = []
    for d in sorted(glob.glob(os.path.join(VERIF, "seeded", "*"))):
        o = os.path.join(d, "outcome.json")
        m = os.path.join(d, "meta.json")
        if not os.path.exists(o) or not os.path.exists(m):
            continue
        oc, me = json.load(open(o)), json.load(open(m))
        rows.append("| %s | %s | %s | %s | %s |" % (os.path.basename(d), me.get("summary", "").replace("|", "/")[:160],
                                                     me.get("needs", "").replace("|", "/")[:120],
                                                     oc.get("caught_by", ""), oc.get("how", "").replace("|", "/")[:200]))
    if not rows:
        return "(no seeded change recorded yet)"
    head = "| id | change | needs | caught by | how the check reports it |\n|----|--------|-------|-----------|-------------------------|\n"
    return head + "\n".join(rows)


def fill(text, tag, body):
    a, b = f"<!-- {tag}-BEGIN -->", f"<!-- {tag}-END -->"
    i, j = text.index(a) + len(a), text.index(b)
    return text[:i] + "\n" + body + "\n" + text[j:]


if __name__ == "__main__":
    p = os.path.join(VERIF, "DESIGN.md")
    t = open(p).read()
    t = fill(t, "PROPS", props_section())
    t = fill(t, "SEEDED", seeded_section())
    open(p, "w").write(t)
    print("DESIGN.md updated")
