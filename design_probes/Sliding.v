From Coq Require Import List Lia Arith Bool ZArith Zify ZifyNat ZifyBool.
Import ListNotations.
Ltac Zify.zify_post_hook ::= Z.div_mod_to_equations.

(* C15: SlidingDeque over a list-like container; check_rep failures are an explicit Panic. *)
Section SD.
Variable A : Type.
Record sd := { consumed : nat; cont : list A }.
Definition view (d : sd) : list A := skipn (consumed d) (cont d).
Definition is_empty (d : sd) : bool := match view d with [] => true | _ => false end.
Definition check_rep (d : sd) : bool :=
  (negb (is_empty d) || (consumed d =? 0)) && (consumed d <=? length (cont d) / 2).

Inductive res (T : Type) := Ok (d : sd) (r : T) | Panic.
Arguments Ok {T}. Arguments Panic {T}.

Definition slide (d : sd) : sd := {| consumed := 0; cont := skipn (consumed d) (cont d) |}.
Definition maybe_slide (d : sd) : sd :=
  if (length (cont d) / 2 <? consumed d) || is_empty d then slide d else d.
Definition clear (d : sd) : sd := {| consumed := 0; cont := [] |}.

Definition checked {T} (d : sd) (r : T) : res T := if check_rep d then Ok d r else Panic.

Definition push_back (x : A) (d : sd) : res unit :=
  if check_rep d then checked {| consumed := consumed d; cont := cont d ++ [x] |} tt else Panic.

Definition pop_front (d : sd) : res (option A) :=
  if check_rep d then
    match view d with
    | [] => Ok d None
    | x :: _ => checked (maybe_slide {| consumed := S (consumed d); cont := cont d |}) (Some x)
    end
  else Panic.

Definition advance (n : nat) (d : sd) : res nat :=
  if check_rep d then
    let k := Nat.min (length (cont d) - consumed d) n in
    checked (maybe_slide {| consumed := consumed d + k; cont := cont d |}) k
  else Panic.

(* pinned: only the empty case is repaired after the pop *)
Definition pop_back_pinned (d : sd) : res (option A) :=
  if check_rep d then
    match rev (view d) with
    | [] => Ok d None
    | x :: _ => let d1 := {| consumed := consumed d; cont := removelast (cont d) |} in
                checked (if is_empty d1 then clear d1 else d1) (Some x)
    end
  else Panic.

(* repaired: maybe_slide after the pop *)
Definition pop_back (d : sd) : res (option A) :=
  if check_rep d then
    match rev (view d) with
    | [] => Ok d None
    | x :: _ => checked (maybe_slide {| consumed := consumed d; cont := removelast (cont d) |}) (Some x)
    end
  else Panic.

Definition empty : sd := {| consumed := 0; cont := [] |}.

(* ---- facts ---- *)
Lemma view_nil_iff d : view d = [] <-> length (cont d) <= consumed d.
Proof.
  unfold view. split; intros H.
  - apply (f_equal (@length _)) in H. rewrite skipn_length in H. cbn in H. lia.
  - apply skipn_all2. exact H.
Qed.
Lemma is_empty_true d : is_empty d = true <-> length (cont d) <= consumed d.
Proof. unfold is_empty. rewrite <- view_nil_iff. destruct (view d); split; intros; congruence. Qed.

Lemma check_rep_spec d : check_rep d = true <->
  (consumed d <= length (cont d) / 2 /\ (length (cont d) <= consumed d -> consumed d = 0)).
Proof.
  unfold check_rep. rewrite andb_true_iff, orb_true_iff, negb_true_iff, Nat.eqb_eq, Nat.leb_le.
  destruct (is_empty d) eqn:E.
  - apply is_empty_true in E. split; [intros ([?|?] & ?); [discriminate|lia]|intros (? & H); split; auto].
  - assert (~ length (cont d) <= consumed d) by (intros H; apply is_empty_true in H; congruence).
    split; [intros (_ & ?); split; auto; lia|intros (? & _); auto].
Qed.

Lemma maybe_slide_rep d : consumed d <= length (cont d) -> check_rep (maybe_slide d) = true /\ view (maybe_slide d) = view d.
Proof.
  intros Hc. unfold maybe_slide. destruct ((length (cont d) / 2 <? consumed d) || is_empty d) eqn:E.
  - split; [|unfold view, slide; cbn [consumed cont skipn]; reflexivity]. apply check_rep_spec. unfold slide. cbn [consumed cont]. split; lia.
  - apply orb_false_elim in E as (E1 & E2). apply Nat.ltb_ge in E1. split; auto.
    apply check_rep_spec. split; auto. intros H. apply is_empty_true in H. congruence.
Qed.

Lemma div2_le n : n / 2 <= n. Proof. lia. Qed.

(* ---- the repaired deque refines a list: no panic, results and view as for a list ---- *)
Theorem push_back_ok x d : check_rep d = true ->
  exists d', push_back x d = Ok d' tt /\ check_rep d' = true /\ view d' = view d ++ [x].
Proof.
  intros R. unfold push_back, checked. rewrite R. apply check_rep_spec in R as (R1 & R2).
  assert (R' : check_rep {| consumed := consumed d; cont := cont d ++ [x] |} = true).
  { apply check_rep_spec. cbn [consumed cont]. rewrite app_length. cbn [length]. pose proof (div2_le (length (cont d))).
    split; lia. }
  rewrite R'. eexists. split; [reflexivity|]. split; auto.
  unfold view. cbn [consumed cont]. pose proof (div2_le (length (cont d))). rewrite skipn_app. replace (consumed d - length (cont d)) with 0 by lia. reflexivity.
Qed.

Lemma skipn_skipn_add {T} x y (l : list T) : skipn x (skipn y l) = skipn (y + x) l.
Proof. revert l. induction y as [|y IH]; intros l; [reflexivity|]. destruct l; [now destruct x|]. cbn. apply IH. Qed.

Lemma skipn_S {T} n (l : list T) : skipn (S n) l = tl (skipn n l).
Proof. revert l. induction n as [|n IH]; intros l; destruct l; cbn; auto. apply IH. Qed.

Theorem pop_front_ok d : check_rep d = true ->
  exists d', pop_front d = Ok d' (hd_error (view d)) /\ check_rep d' = true /\ view d' = tl (view d).
Proof.
  intros R. unfold pop_front, checked. rewrite R. destruct (view d) as [|x t] eqn:V.
  - eexists. split; [reflexivity|]. split; auto.
  - assert (Hlt : consumed d < length (cont d)).
    { destruct (Nat.lt_ge_cases (consumed d) (length (cont d))); auto. apply view_nil_iff in H. congruence. }
    destruct (maybe_slide_rep {| consumed := S (consumed d); cont := cont d |} ltac:(cbn; lia)) as (R' & V').
    rewrite R'. eexists. split; [reflexivity|]. split; auto. rewrite V'. unfold view in *. cbn [consumed cont].
    rewrite skipn_S, V. reflexivity.
Qed.

Theorem advance_ok n d : check_rep d = true ->
  exists d', advance n d = Ok d' (Nat.min (length (view d)) n) /\ check_rep d' = true /\ view d' = skipn n (view d).
Proof.
  intros R. unfold advance, checked. rewrite R. pose proof R as R0. apply check_rep_spec in R0 as (R1 & R2).
  set (k := Nat.min (length (cont d) - consumed d) n).
  destruct (maybe_slide_rep {| consumed := consumed d + k; cont := cont d |} ltac:(cbn; lia)) as (R' & V').
  rewrite R'. eexists. split; [|split; [exact R'|]].
  - unfold view. rewrite skipn_length. reflexivity.
  - rewrite V'. unfold view. cbn [consumed cont]. rewrite skipn_skipn_add.
    destruct (Nat.le_ge_cases n (length (cont d) - consumed d)).
    + replace k with n by lia. reflexivity.
    + replace k with (length (cont d) - consumed d) by lia. rewrite !skipn_all2; auto; lia.
Qed.

Lemma rev_view_cons d x r : rev (view d) = x :: r -> consumed d < length (cont d) /\ view d = rev r ++ [x] /\
  view {| consumed := consumed d; cont := removelast (cont d) |} = rev r /\ length (removelast (cont d)) = length (cont d) - 1.
Proof.
  intros E. assert (Ev : view d = rev r ++ [x]) by (apply (f_equal (@rev _)) in E; rewrite rev_involutive in E; exact E).
  assert (Hlt : consumed d < length (cont d)).
  { destruct (Nat.lt_ge_cases (consumed d) (length (cont d))); auto. apply view_nil_iff in H. rewrite H in Ev. destruct (rev r); discriminate. }
  assert (Ec : cont d = firstn (consumed d) (cont d) ++ rev r ++ [x]) by (rewrite <- Ev; unfold view; now rewrite firstn_skipn).
  assert (Er : removelast (cont d) = firstn (consumed d) (cont d) ++ rev r).
  { rewrite Ec at 1. rewrite app_assoc. apply removelast_last. }
  repeat split; auto.
  - unfold view. cbn. rewrite Er. rewrite skipn_app, skipn_all2 by (rewrite firstn_length; lia).
    rewrite firstn_length. replace (consumed d - Nat.min (consumed d) (length (cont d))) with 0 by lia. reflexivity.
  - rewrite Er. apply (f_equal (@length _)) in Ec. rewrite !app_length in *. cbn [length] in Ec. lia.
Qed.

Theorem pop_back_ok d : check_rep d = true ->
  exists d', pop_back d = Ok d' (hd_error (rev (view d))) /\ check_rep d' = true /\ view d' = removelast (view d).
Proof.
  intros R. unfold pop_back, checked. rewrite R. destruct (rev (view d)) as [|x r] eqn:V.
  - eexists. split; [reflexivity|]. split; auto.
    assert (view d = []) by (apply (f_equal (@rev _)) in V; rewrite rev_involutive in V; exact V). now rewrite H.
  - destruct (rev_view_cons d x r V) as (Hlt & Ev & Ev' & Lr).
    destruct (maybe_slide_rep {| consumed := consumed d; cont := removelast (cont d) |} ltac:(cbn; lia)) as (R' & V').
    rewrite R'. eexists. split; [reflexivity|]. split; auto. rewrite V', Ev', Ev. now rewrite removelast_last.
Qed.

(* F2 on the pinned definition: push x4, advance 2, pop_back panics *)
Definition run3 (x : A) : res (option A) :=
  match push_back x empty with Ok d1 _ =>
  match push_back x d1 with Ok d2 _ =>
  match push_back x d2 with Ok d3 _ =>
  match push_back x d3 with Ok d4 _ =>
  match advance 2 d4 with Ok d5 _ => pop_back_pinned d5 | Panic => Panic end
  | Panic => Panic end | Panic => Panic end | Panic => Panic end | Panic => Panic end.
Lemma sliding_popback_refuted (x : A) : run3 x = Panic.
Proof. reflexivity. Qed.
End SD.
Print Assumptions pop_back_ok.
