From Coq Require Import List Lia Arith Bool.
Import ListNotations.

(* C11 (word level): the offsets written by MessageWrapper::encode are the running sums of the value lengths
   (all but the last), and slicing the concatenated values at those offsets gives back each value. *)
Section Layout.
Variable byte : Type.

(* the accumulator loop of encode(): nothing for the first value, then the sum so far before adding *)
Fixpoint enc_offs (acc : option nat) (lens : list nat) : list nat :=
  match lens with
  | [] => []
  | l :: t => match acc with
              | None => enc_offs (Some l) t
              | Some s => s :: enc_offs (Some (s + l)) t
              end
  end.

Fixpoint sum (l : list nat) : nat := match l with [] => 0 | a :: t => a + sum t end.
Definition prefix_sum (lens : list nat) (i : nat) : nat := sum (firstn i lens).

Lemma enc_offs_some s lens : enc_offs (Some s) lens = map (fun i => s + prefix_sum lens i) (seq 0 (length lens)).
Proof.
  revert s. induction lens as [|l t IH]; intros s; cbn [enc_offs length seq map]; [reflexivity|].
  unfold prefix_sum at 1. cbn [firstn sum]. rewrite Nat.add_0_r. f_equal.
  rewrite IH. rewrite <- seq_shift, map_map. apply map_ext. intros i. unfold prefix_sum. cbn [firstn sum]. lia.
Qed.

(* offsets[i] = end of value i = sum of the first i+1 lengths, for i = 0 .. n-2 *)
Theorem enc_offs_spec lens : enc_offs None lens = map (fun i => prefix_sum lens (S i)) (seq 0 (length lens - 1)).
Proof.
  destruct lens as [|l t]; [reflexivity|]. cbn [enc_offs length]. replace (S (length t) - 1) with (length t) by lia. rewrite enc_offs_some.
  apply map_ext. intros i. unfold prefix_sum. cbn [firstn sum]. reflexivity.
Qed.

Corollary enc_offs_length lens : length (enc_offs None lens) = length lens - 1.
Proof. now rewrite enc_offs_spec, map_length, seq_length. Qed.

Corollary enc_offs_nth lens i : S i < length lens -> nth i (enc_offs None lens) 0 = prefix_sum lens (S i).
Proof.
  intros H. rewrite enc_offs_spec. rewrite (nth_indep _ 0 (prefix_sum lens (S 0))) by (rewrite map_length, seq_length; lia).
  rewrite (map_nth (fun i => prefix_sum lens (S i)) (seq 0 (length lens - 1)) 0 i). rewrite seq_nth by lia. reflexivity.
Qed.

(* slicing the concatenated values *)
Lemma slice_value (vals : list (list byte)) i :
  i < length vals ->
  firstn (length (nth i vals [])) (skipn (prefix_sum (map (@length byte) vals) i) (concat vals)) = nth i vals [].
Proof.
  revert i. induction vals as [|v vs IH]; intros i H; [cbn in H; lia|].
  destruct i as [|i]; cbn [nth map concat].
  - unfold prefix_sum. cbn [firstn sum skipn]. now rewrite firstn_app, firstn_all, Nat.sub_diag, app_nil_r.
  - unfold prefix_sum. cbn [firstn sum]. rewrite skipn_app, skipn_all2 by lia.
    replace (length v + sum (firstn i (map (@length byte) vs)) - length v) with (sum (firstn i (map (@length byte) vs))) by lia.
    cbn [app]. apply IH. cbn in H. lia.
Qed.

Lemma prefix_sum_S lens i : i < length lens -> prefix_sum lens (S i) = prefix_sum lens i + nth i lens 0.
Proof.
  revert i. induction lens as [|l t IH]; intros i H; [cbn in H; lia|].
  destruct i as [|i]; unfold prefix_sum in *; cbn [firstn sum nth]; [lia|]. specialize (IH i ltac:(cbn in H; lia)). cbn [firstn sum] in IH. lia.
Qed.

Lemma prefix_sum_all lens : prefix_sum lens (length lens) = sum lens.
Proof. unfold prefix_sum. now rewrite firstn_all. Qed.

Lemma sum_map_length (vals : list (list byte)) : sum (map (@length byte) vals) = length (concat vals).
Proof. induction vals as [|v vs IH]; [reflexivity|]. cbn. rewrite app_length. lia. Qed.

(* putting it together: with start/end computed as MessageView does (relative to the end of the header), the
   i-th value read back is the i-th value written *)
Definition rel_start (offs : list nat) (i : nat) : nat := match i with 0 => 0 | S j => nth j offs 0 end.
Definition rel_end (n : nat) (offs : list nat) (body_len i : nat) : nat := if S i =? n then body_len else nth i offs 0.

Theorem C11_values_round_trip (vals : list (list byte)) i :
  i < length vals ->
  let lens := map (@length byte) vals in
  let offs := enc_offs None lens in
  let body := concat vals in
  let s := rel_start offs i in
  let e := rel_end (length vals) offs (length body) i in
  s <= e /\ firstn (e - s) (skipn s body) = nth i vals [].
Proof.
  intros H lens offs body s e.
  assert (Ll : length lens = length vals) by (unfold lens; now rewrite map_length).
  assert (Hs : s = prefix_sum lens i).
  { unfold s, rel_start. destruct i as [|j]; [reflexivity|]. unfold offs. rewrite enc_offs_nth by lia. reflexivity. }
  assert (He : e = prefix_sum lens (S i)).
  { unfold e, rel_end. destruct (S i =? length vals) eqn:E.
    - apply Nat.eqb_eq in E. rewrite E, <- Ll, prefix_sum_all. unfold lens, body. now rewrite sum_map_length.
    - apply Nat.eqb_neq in E. unfold offs. rewrite enc_offs_nth by lia. reflexivity. }
  rewrite He, Hs, prefix_sum_S by lia. split; [lia|].
  replace (prefix_sum lens i + nth i lens 0 - prefix_sum lens i) with (nth i lens 0) by lia.
  unfold lens at 1. rewrite (nth_indep _ 0 (length (@nil byte))) by (rewrite map_length; lia).
  rewrite (map_nth (@length byte) vals [] i). apply slice_value. exact H.
Qed.
End Layout.
Print Assumptions C11_values_round_trip.
