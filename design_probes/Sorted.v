From Coq Require Import List Lia Arith Bool Sorting.Sorted.
Import ListNotations.

(* C16: SortedDeque over the list semantics of SlidingDeque (C15), pair convention (key, Option value). *)
Definition item := (nat * option nat)%type.
Definition live (it : item) : bool := match snd it with Some _ => true | None => false end.
Definition key (it : item) : nat := fst it.

Definition abs (items : list item) : list item := filter live items.

(* representation invariant: keys strictly increasing, first and last physical items live *)
Fixpoint strictly_inc (l : list item) : Prop :=
  match l with
  | a :: ((b :: _) as t) => key a < key b /\ strictly_inc t
  | _ => True
  end.
Definition ends_live (l : list item) : Prop :=
  match l with [] => True | a :: _ => live a = true /\ live (last l a) = true end.
Definition Inv (l : list item) : Prop := strictly_inc l /\ ends_live l.

(* ---- operations ---- *)
Fixpoint drop_erased_front (l : list item) : list item :=
  match l with a :: t => if live a then l else drop_erased_front t | [] => [] end.
Definition drop_erased_back (l : list item) : list item := rev (drop_erased_front (rev l)).

Definition pop_first (l : list item) : list item * option item :=
  match l with [] => ([], None) | a :: t => (drop_erased_front t, Some a) end.
Definition pop_last (l : list item) : list item * option item :=
  match rev l with [] => ([], None) | a :: t => (drop_erased_back (rev t), Some a) end.

Fixpoint find_index (k : nat) (l : list item) : option nat :=
  match l with
  | [] => None
  | a :: t => if key a =? k then Some 0 else option_map S (find_index k t)
  end.

Definition find (k : nat) (l : list item) : option item :=
  match find_index k l with
  | Some i => match nth_error l i with Some it => if live it then Some it else None | None => None end
  | None => None
  end.

Fixpoint mark (i : nat) (l : list item) : list item :=
  match l, i with
  | [], _ => []
  | a :: t, O => (fst a, None) :: t
  | a :: t, S j => a :: mark j t
  end.

Definition remove (k : nat) (l : list item) : list item * option item :=
  match find_index k l with
  | None => (l, None)
  | Some i =>
    match nth_error l i with
    | None => (l, None)
    | Some it =>
      if live it then
        if i =? 0 then pop_first l
        else if i =? length l - 1 then pop_last l
        else (mark i l, Some it)
      else (l, None)
    end
  end.

Inductive pres := POk (l : list item) | PPanic.
Definition push (it : item) (l : list item) : pres :=
  if live it then
    match rev l with
    | b :: _ => if key b <? key it then POk (l ++ [it]) else PPanic
    | [] => POk [it]
    end
  else POk l.

(* ---- the specification: a strictly sorted association list of live items ---- *)
Definition spec_find (k : nat) (m : list item) : option item := List.find (fun it => key it =? k) m.
Definition spec_remove (k : nat) (m : list item) : list item := filter (fun it => negb (key it =? k)) m.

(* ---- basic facts ---- *)
Lemma strictly_inc_tail a t : strictly_inc (a :: t) -> strictly_inc t.
Proof. destruct t; cbn; tauto. Qed.
Lemma strictly_inc_lt a t x : strictly_inc (a :: t) -> In x t -> key a < key x.
Proof.
  revert a. induction t as [|b t IH]; intros a H Hin; [destruct Hin|].
  destruct H as (H1 & H2). destruct Hin as [<-|Hin]; auto. specialize (IH b H2 Hin). lia.
Qed.

Lemma find_index_some k l i : find_index k l = Some i -> exists it, nth_error l i = Some it /\ key it = k.
Proof.
  revert i. induction l as [|a t IH]; intros i H; [discriminate|]. cbn in H.
  destruct (key a =? k) eqn:E.
  - inversion H; subst. apply Nat.eqb_eq in E. exists a. auto.
  - destruct (find_index k t) as [j|] eqn:F; [|discriminate]. inversion H; subst.
    destruct (IH j eq_refl) as (it & A & B). exists it. auto.
Qed.
Lemma find_index_none k l : find_index k l = None -> forall it, In it l -> key it <> k.
Proof.
  induction l as [|a t IH]; intros H it Hin; [destruct Hin|]. cbn in H.
  destruct (key a =? k) eqn:E; [discriminate|]. apply Nat.eqb_neq in E.
  destruct (find_index k t) eqn:F; [discriminate|]. destruct Hin as [<-|Hin]; auto.
Qed.

Lemma find_all_false k (m : list item) : (forall x, In x m -> (key x =? k) = false) -> List.find (fun it => key it =? k) m = None.
Proof. induction m as [|x r IH]; intros H; [reflexivity|]. cbn. rewrite H by now left. apply IH. intros; apply H; now right. Qed.

(* find agrees with the specification on the abstraction *)
Theorem find_refines k l : strictly_inc l -> find k l = spec_find k (abs l).
Proof.
  unfold find, spec_find, abs. induction l as [|a t IH]; intros Hs; [reflexivity|].
  cbn [find_index filter]. destruct (key a =? k) eqn:E.
  - cbn [nth_error]. destruct (live a) eqn:La; cbn [List.find]; [now rewrite E|].
    (* a is erased and has key k: nothing later has key k *)
    apply Nat.eqb_eq in E. symmetry.
    assert (H : forall x, In x (filter live t) -> (key x =? k) = false).
    { intros x Hx. apply filter_In in Hx as (Hx & _). pose proof (strictly_inc_lt a t x Hs Hx). apply Nat.eqb_neq. lia. }
    now apply find_all_false.
  - specialize (IH (strictly_inc_tail a t Hs)).
    destruct (find_index k t) as [j|] eqn:F; cbn [option_map].
    + cbn [nth_error]. rewrite IH. destruct (live a); cbn [List.find]; [now rewrite E|reflexivity].
    + rewrite IH. destruct (live a); cbn [List.find]; [now rewrite E|reflexivity].
Qed.

(* ---- pop_first ---- *)
Lemma abs_drop_front l : abs (drop_erased_front l) = abs l.
Proof. unfold abs. induction l as [|a t IH]; [reflexivity|]. cbn. destruct (live a) eqn:E; [cbn; now rewrite E|exact IH]. Qed.

Lemma strictly_inc_drop l : strictly_inc l -> strictly_inc (drop_erased_front l).
Proof. induction l as [|a t IH]; intros H; [exact I|]. cbn. destruct (live a); auto. apply IH. eapply strictly_inc_tail; eauto. Qed.

Lemma drop_front_suffix l : exists pre, l = pre ++ drop_erased_front l /\ Forall (fun it => live it = false) pre.
Proof.
  induction l as [|a t (pre & E & F)]; [exists []; split; [reflexivity|constructor]|]. cbn. destruct (live a) eqn:La.
  - exists []. split; [reflexivity|constructor].
  - exists (a :: pre). split; [cbn; now rewrite <- E|constructor; auto].
Qed.

Lemma last_app_nonempty {A} (l1 l2 : list A) d : l2 <> [] -> last (l1 ++ l2) d = last l2 d.
Proof. intros H. induction l1 as [|a l1 IH]; [reflexivity|]. cbn [app]. destruct (l1 ++ l2) eqn:E; [destruct l1; cbn in E; congruence|]. cbn. rewrite <- IH. reflexivity. Qed.

Lemma last_default {A} (l : list A) d1 d2 : l <> [] -> last l d1 = last l d2.
Proof. induction l as [|a t IH]; intros H; [congruence|]. destruct t; [reflexivity|]. cbn. apply IH. discriminate. Qed.

Lemma drop_front_head_live l a t : drop_erased_front l = a :: t -> live a = true.
Proof. induction l as [|x r IH]; cbn; [discriminate|]. destruct (live x) eqn:E; [intros H; inversion H; subst; exact E|exact IH]. Qed.

Theorem pop_first_refines l : Inv l ->
  let '(l', r) := pop_first l in
  r = hd_error (abs l) /\ abs l' = tl (abs l) /\ Inv l'.
Proof.
  intros (Hs & He). destruct l as [|a t]; cbn [pop_first]; [repeat split; auto|].
  destruct He as (La & Ll). assert (Ea : abs (a :: t) = a :: abs t) by (unfold abs; cbn [filter]; now rewrite La).
  rewrite Ea. cbn [hd_error tl].
  split; [reflexivity|]. split; [apply abs_drop_front|].
  split; [apply strictly_inc_drop; eapply strictly_inc_tail; eauto|].
  destruct (drop_erased_front t) as [|b r] eqn:D; [exact I|].
  split; [eapply drop_front_head_live; eauto|].
  destruct (drop_front_suffix t) as (pre & E & F). rewrite D in E.
  (* the last physical item is unchanged *)
  assert (last (a :: t) a = last (b :: r) b).
  { rewrite E. change (a :: pre ++ b :: r) with ((a :: pre) ++ b :: r). rewrite last_app_nonempty by discriminate.
    apply last_default. discriminate. }
  rewrite <- H. exact Ll.
Qed.

Lemma filter_filter_all {A} (f : A -> bool) (l : list A) : (forall x, In x l -> f x = true) -> filter f l = l.
Proof. induction l as [|a t IH]; intros H; [reflexivity|]. cbn. rewrite H by now left. f_equal. apply IH. intros; apply H; now right. Qed.

(* ---- removing from the middle only marks ---- *)
Lemma abs_mark i l it : nth_error l i = Some it -> live it = true -> strictly_inc l ->
  abs (mark i l) = spec_remove (key it) (abs l).
Proof.
  unfold abs, spec_remove. revert i. induction l as [|a t IH]; intros i Hn Hl Hs; [destruct i; discriminate|].
  destruct i as [|j]; cbn [mark nth_error filter] in *.
  - inversion Hn; subst a. rewrite Hl. cbn [live snd filter]. rewrite Nat.eqb_refl. cbn [negb].
    (* nothing else has this key *)
    symmetry. rewrite filter_filter_all; [reflexivity|].
    intros x Hx. apply filter_In in Hx as (Hx & _). pose proof (strictly_inc_lt it t x Hs Hx).
    apply negb_true_iff, Nat.eqb_neq. lia.
  - specialize (IH j Hn Hl (strictly_inc_tail a t Hs)).
    assert (Hk : key a <> key it).
    { apply nth_error_In in Hn. pose proof (strictly_inc_lt a t it Hs Hn). lia. }
    destruct (live a) eqn:La; cbn [filter].
    + apply Nat.eqb_neq in Hk. rewrite Hk. cbn [negb]. f_equal. exact IH.
    + exact IH.
Qed.
Print Assumptions pop_first_refines. Print Assumptions abs_mark.
