From Coq Require Import List NArith Lia Bool Arith.
Import ListNotations.
Require Import RA.

(* Reader-side crux of C13, stated for ANY orderings record satisfying the hypotheses below. *)
Section Crux.
Variable O : orderings.
Hypothesis H_seq1_acq : is_acq (o_r_seq1 O) = true.
Hypothesis H_seq2_acq : is_acq (o_r_seq2 O) = true.
Hypothesis H_v_acq : is_acq (o_r_v O) = true.
Hypothesis H_t_acq : is_acq (o_r_t O) = true.

Variable m : mem.
Variable acc : list (N * N).
Definition nacc := length acc - 1.

Definition covers (x : loc) (i k : nat) := forall j ms, i <= j -> nth_error (m x) j = Some ms -> k <= upd ms.

(* memory invariant, reader-relevant part *)
Hypothesis M_seq : forall k ms, nth_error (m Seq) k = Some ms ->
  val ms = N.of_nat k /\ k <= nacc /\ (1 <= k -> mrel ms = true) /\
  covers (T (par k)) (mview ms (T (par k))) k /\ covers (V (par k)) (mview ms (V (par k))) k.
Hypothesis M_T : forall p j ms, nth_error (m (T p)) j = Some ms ->
  (upd ms <= nacc -> exists tv, nth_error acc (upd ms) = Some tv /\ val ms = fst tv) /\
  (upd ms = 0 \/ par (upd ms) = p) /\ (1 <= upd ms -> mrel ms = true /\ upd ms <= S (mview ms Seq)).
Hypothesis M_V : forall p j ms, nth_error (m (V p)) j = Some ms ->
  (upd ms <= nacc -> exists tv, nth_error acc (upd ms) = Some tv /\ val ms = snd tv) /\
  (upd ms = 0 \/ par (upd ms) = p) /\ (1 <= upd ms -> mrel ms = true /\ upd ms <= S (mview ms Seq)).

Definition good (vw : view) (s k : nat) (P : N * N -> Prop) :=
  (k = s /\ exists tv, nth_error acc s = Some tv /\ P tv) \/ s < vw Seq.

Lemma covers_mono x i i' k : covers x i k -> i <= i' -> covers x i' k.
Proof. unfold covers; intros H L j ms Hj E. eapply H; [|exact E]. lia. Qed.

Lemma vset_same vw x n : vset vw x n x = n.
Proof. unfold vset. destruct (loc_eqb_spec x x); congruence. Qed.
Lemma vset_other vw x n y : y <> x -> vset vw x n y = vw y.
Proof. unfold vset. destruct (loc_eqb_spec y x); congruence. Qed.

Lemma par_same_gt s k : par k = par s -> s < k -> S (S s) <= k.
Proof.
  unfold par. intros E L. destruct (Nat.eq_dec k (S s)) as [->|]; [|lia].
  rewrite Nat.odd_succ in E. rewrite <- Nat.negb_odd in E. destruct (Nat.odd s); discriminate.
Qed.

(* Step 1: the first (acquire) load of Seq establishes coverage of slot s. *)
Lemma seq_load_covers vw i s vw' ms :
  load m vw Seq (o_r_seq1 O) i = Some (s, vw', ms) ->
  let s' := N.to_nat s in
  s' = i /\ s' <= nacc /\ s' <= vw' Seq /\ covers (T (par s')) (vw' (T (par s'))) s' /\ covers (V (par s')) (vw' (V (par s'))) s'.
Proof.
  unfold load. destruct (vw Seq <=? i) eqn:Le; [|discriminate].
  destruct (nth_error (m Seq) i) as [ms0|] eqn:E; [|discriminate].
  intros H; inversion H; subst; clear H.
  destruct (M_seq _ _ E) as (Hv & Hn & Hrel & CT & CV).
  rewrite Hv, Nat2N.id. cbn zeta. rewrite H_seq1_acq. cbn [andb].
  destruct (Nat.eq_dec i 0) as [->|Hi].
  - (* s = 0: coverage is trivial *)
    repeat split; try lia; intros j ms' _ _; lia.
  - rewrite Hrel by lia. unfold vjoin. rewrite vset_same.
    repeat split; try lia.
    + eapply covers_mono; [exact CT|]. lia.
    + eapply covers_mono; [exact CV|]. lia.
Qed.

(* Step 2/3: an acquire load of a slot either returns the component of acc[s] or pushes the Seq view past s. *)
Lemma slot_load_good_V vw s i v vw' ms :
  s <= nacc -> s <= vw Seq -> covers (V (par s)) (vw (V (par s))) s ->
  load m vw (V (par s)) (o_r_v O) i = Some (v, vw', ms) ->
  good vw' s (upd ms) (fun tv => v = snd tv) /\ s <= vw' Seq /\ (forall x, x <> V (par s) -> vw x <= vw' x).
Proof.
  intros Hs Hseq Cov. unfold load. destruct (vw (V (par s)) <=? i) eqn:Le; [|discriminate].
  apply Nat.leb_le in Le.
  destruct (nth_error (m (V (par s))) i) as [ms0|] eqn:E; [|discriminate].
  intros H; inversion H; subst; clear H.
  pose proof (Cov _ _ Le E) as Hk.
  destruct (M_V _ _ _ E) as (Hval & Hpar & Hrel).
  rewrite H_v_acq. cbn [andb].
  destruct (Nat.eq_dec (upd ms) s) as [Es|Ns].
  - (* value of update s *)
    split; [left; split; auto; destruct (Hval ltac:(lia)) as (tv & A & B); rewrite Es in A; eauto|].
    destruct (mrel ms); unfold vjoin; rewrite ?vset_other by discriminate; split; try lia;
      intros x Hx; rewrite ?vset_other by auto; lia.
  - (* newer update of the same parity: its view pushes Seq beyond s *)
    assert (S (S s) <= upd ms) as Hgt.
    { destruct Hpar as [Z|P]; [lia|]. apply par_same_gt; auto. lia. }
    destruct (Hrel ltac:(lia)) as (R & Hv). rewrite R. unfold vjoin.
    split; [right; rewrite vset_other by discriminate; lia|].
    split; [rewrite vset_other by discriminate; lia|].
    intros x Hx; rewrite vset_other by auto; lia.
Qed.

Lemma slot_load_good_T vw s i t vw' ms :
  s <= nacc -> s <= vw Seq -> covers (T (par s)) (vw (T (par s))) s ->
  load m vw (T (par s)) (o_r_t O) i = Some (t, vw', ms) ->
  good vw' s (upd ms) (fun tv => t = fst tv) /\ s <= vw' Seq /\ (forall x, x <> T (par s) -> vw x <= vw' x).
Proof.
  intros Hs Hseq Cov. unfold load. destruct (vw (T (par s)) <=? i) eqn:Le; [|discriminate].
  apply Nat.leb_le in Le.
  destruct (nth_error (m (T (par s))) i) as [ms0|] eqn:E; [|discriminate].
  intros H; inversion H; subst; clear H.
  pose proof (Cov _ _ Le E) as Hk.
  destruct (M_T _ _ _ E) as (Hval & Hpar & Hrel).
  rewrite H_t_acq. cbn [andb].
  destruct (Nat.eq_dec (upd ms) s) as [Es|Ns].
  - split; [left; split; auto; destruct (Hval ltac:(lia)) as (tv & A & B); rewrite Es in A; eauto|].
    destruct (mrel ms); unfold vjoin; rewrite ?vset_other by discriminate; split; try lia;
      intros x Hx; rewrite ?vset_other by auto; lia.
  - assert (S (S s) <= upd ms) as Hgt.
    { destruct Hpar as [Z|P]; [lia|]. apply par_same_gt; auto. lia. }
    destruct (Hrel ltac:(lia)) as (R & Hv). rewrite R. unfold vjoin.
    split; [right; rewrite vset_other by discriminate; lia|].
    split; [rewrite vset_other by discriminate; lia|].
    intros x Hx; rewrite vset_other by auto; lia.
Qed.

(* Step 4: if the second Seq load returns s again, the pair is acc[s]: NO TORN READ. *)
Theorem no_tear vw s v kv t kt i s2 vw' ms :
  good vw s kv (fun tv => v = snd tv) ->
  good vw s kt (fun tv => t = fst tv) ->
  load m vw Seq (o_r_seq2 O) i = Some (s2, vw', ms) ->
  N.to_nat s2 = s ->
  nth_error acc s = Some (t, v).
Proof.
  intros GV GT. unfold load. destruct (vw Seq <=? i) eqn:Le; [|discriminate].
  apply Nat.leb_le in Le.
  destruct (nth_error (m Seq) i) as [ms0|] eqn:E; [|discriminate].
  intros H; inversion H; subst; clear H. intros Hs.
  destruct (M_seq _ _ E) as (Hv & _). rewrite Hv, Nat2N.id in Hs. subst i.
  destruct GV as [(_ & tv & A & B)|]; [|lia].
  destruct GT as [(_ & tv' & A' & B')|]; [|lia].
  rewrite A in A'. inversion A'; subst tv'. rewrite A. destruct tv; cbn in *; subst; reflexivity.
Qed.
End Crux.
Print Assumptions no_tear.
