From Coq Require Import List Lia Arith Bool.
Import ListNotations.

(* C17: ByteArena::read_n_impl as a function of a reader script. *)
Inductive ev := Deliver (k : nat) | Interrupted | EofEv | Fail (e : nat).
Inductive err := EIntr | EOther (e : nat).
Inductive result := ROk (got : nat) | RErr (e : err).

Record out := { res : result; calls : list nat (* bytes requested by each read call *); used : list ev (* events consumed *) }.

Definition next_ev (script : list ev) : ev * list ev :=
  match script with [] => (EofEv, []) | e :: t => (e, t) end.

(* the `for _ in 0..max_attempts` loop; `got < count` on entry *)
Fixpoint loop (attempts count got : nat) (last : option err) (script : list ev) : nat * option err * list nat * list ev :=
  match attempts with
  | O => (got, last, [], [])
  | S attempts =>
    let '(e, script') := next_ev script in
    let req := count - got in
    match e with
    | Deliver k =>
        let d := Nat.min (Nat.max k 1) req in
        let got' := got + d in
        if got' =? count then (got', last, [req], [e])
        else let '(g, l, cs, us) := loop attempts count got' last script' in (g, l, req :: cs, e :: us)
    | Interrupted =>
        let '(g, l, cs, us) := loop attempts count got (Some EIntr) script' in (g, l, req :: cs, e :: us)
    | EofEv => (got, None, [req], [e])
    | Fail x => (got, Some (EOther x), [req], [e])
    end
  end.

Definition read_n_impl (count max : nat) (script : list ev) : out :=
  if count =? 0 then {| res := ROk 0; calls := []; used := [] |}
  else let '(g, l, cs, us) := loop max count 0 None script in
       {| res := match g, l with 0, Some e => RErr e | _, _ => ROk g end; calls := cs; used := us |}.

(* ---- what the loop guarantees ---- *)
Definition is_stop (e : ev) : bool := match e with EofEv | Fail _ => true | _ => false end.
Definition ev_err (e : ev) : option err := match e with Interrupted => Some EIntr | Fail x => Some (EOther x) | _ => None end.

(* the error state after consuming `us`, starting from `l0`: EOF clears it, errors replace it, deliveries keep it *)
Fixpoint err_after (l0 : option err) (us : list ev) : option err :=
  match us with
  | [] => l0
  | EofEv :: t => err_after None t
  | Deliver _ :: t => err_after l0 t
  | e :: t => err_after (ev_err e) t
  end.

Lemma loop_spec : forall attempts count got l0 script g l cs us,
  got < count -> loop attempts count got l0 script = (g, l, cs, us) ->
  length cs <= attempts /\ length us = length cs /\
  got <= g <= count /\
  Forall (fun r => 1 <= r <= count) cs /\
  Forall (fun e => is_stop e = false) (removelast us) /\
  l = err_after l0 us /\
  (g = got -> Forall (fun e => match e with Deliver _ => False | _ => True end) us) /\
  (* why it stopped *)
  (g = count \/ length cs = attempts \/ exists e, last us Interrupted = e /\ is_stop e = true).
Proof.
  induction attempts as [|n IH]; intros count got l0 script g l cs us Hlt H; cbn [loop] in H.
  - inversion H; subst. cbn. repeat split; auto; lia.
  - destruct (next_ev script) as [e script'] eqn:N. destruct e as [k| | |x].
    + set (d := Nat.min (Nat.max k 1) (count - got)) in *. assert (Hd : 1 <= d <= count - got) by (unfold d; lia). clearbody d.
      destruct (got + d =? count) eqn:Efull.
      * apply Nat.eqb_eq in Efull. inversion H; subst. cbn [length removelast err_after last].
        split; [lia|]. split; [reflexivity|]. split; [lia|]. split; [constructor; [lia|constructor]|].
        split; [constructor|]. split; [reflexivity|]. split; [intros; lia|]. left; reflexivity.
      * apply Nat.eqb_neq in Efull.
        destruct (loop n count (got + d) l0 script') as [[[g1 l1] cs1] us1] eqn:L. inversion H; subst.
        destruct (IH count (got + d) l0 script' g l cs1 us1 ltac:(lia) L) as (A & B & C & D & E & F & G & St).
        assert (Hstop : g = count \/ S (length cs1) = S n \/ (exists e, last (Deliver k :: us1) Interrupted = e /\ is_stop e = true)).
        { destruct St as [St|[St|(e & S1 & S2)]]; [left; exact St|right; left; lia|right; right].
          exists e. split; auto. destruct us1 as [|u us1']; [cbn in S1; subst e; discriminate|exact S1]. }
        assert (Hrl : Forall (fun e => is_stop e = false) (removelast (Deliver k :: us1))).
        { destruct us1; [constructor|]. cbn [removelast]. constructor; [reflexivity|exact E]. }
        cbn [length err_after].
        split; [lia|]. split; [lia|]. split; [lia|]. split; [constructor; [lia|exact D]|].
        split; [exact Hrl|]. split; [exact F|]. split; [intros; lia|exact Hstop].
    + destruct (loop n count got (Some EIntr) script') as [[[g1 l1] cs1] us1] eqn:L. inversion H; subst.
      destruct (IH count got (Some EIntr) script' g l cs1 us1 Hlt L) as (A & B & C & D & E & F & G & St).
      assert (Hstop : g = count \/ S (length cs1) = S n \/ (exists e, last (Interrupted :: us1) Interrupted = e /\ is_stop e = true)).
      { destruct St as [St|[St|(e & S1 & S2)]]; [left; exact St|right; left; lia|right; right].
        exists e. split; auto. destruct us1 as [|u us1']; [cbn in S1; subst e; discriminate|exact S1]. }
      assert (Hrl : Forall (fun e => is_stop e = false) (removelast (Interrupted :: us1))).
      { destruct us1; [constructor|]. cbn [removelast]. constructor; [reflexivity|exact E]. }
      cbn [length err_after ev_err].
      split; [lia|]. split; [lia|]. split; [lia|]. split; [constructor; [lia|exact D]|].
      split; [exact Hrl|]. split; [exact F|]. split; [intros Hg; constructor; auto|exact Hstop].
    + inversion H; subst. cbn [length removelast err_after last].
      split; [lia|]. split; [reflexivity|]. split; [lia|]. split; [constructor; [lia|constructor]|].
      split; [constructor|]. split; [reflexivity|]. split; [intros _; constructor; auto|].
      right. right. eexists; split; reflexivity.
    + inversion H; subst. cbn [length removelast err_after last ev_err].
      split; [lia|]. split; [reflexivity|]. split; [lia|]. split; [constructor; [lia|constructor]|].
      split; [constructor|]. split; [reflexivity|]. split; [intros _; constructor; auto|].
      right. right. eexists; split; reflexivity.
Qed.

(* ---- C17, for count > 0 ---- *)
Theorem C17_read_n count max script : 0 < count ->
  let o := read_n_impl count max script in
  length (calls o) <= max /\
  Forall (fun r => 1 <= r <= count) (calls o) /\
  Forall (fun e => is_stop e = false) (removelast (used o)) /\
  match res o with
  | ROk g => g <= count /\ (g = 0 -> err_after None (used o) = None)
  | RErr e => err_after None (used o) = Some e /\
              Forall (fun e => match e with Deliver _ => False | _ => True end) (used o)
  end.
Proof.
  intros Hc. unfold read_n_impl. assert (count =? 0 = false) as -> by (apply Nat.eqb_neq; lia).
  destruct (loop max count 0 None script) as [[[g l] cs] us] eqn:L.
  destruct (loop_spec max count 0 None script g l cs us Hc L) as (A & B & C & D & E & F & G & St).
  cbn [calls used res]. repeat split; auto.
  destruct g as [|g']; [destruct l as [e|]|]; cbn.
  - split; [now rewrite <- F|]. apply G. reflexivity.
  - split; [lia|]. intros _. now rewrite <- F.
  - split; [lia|]. intros; discriminate.
Qed.

Theorem C17_count_zero max script : read_n_impl 0 max script = {| res := ROk 0; calls := []; used := [] |}.
Proof. reflexivity. Qed.

(* an EOF after an interrupted call is a success with nothing read (the case no test reaches) *)
Example intr_then_eof : res (read_n_impl 5 10 [Interrupted; EofEv]) = ROk 0.
Proof. reflexivity. Qed.
Example all_intr : res (read_n_impl 5 2 [Interrupted; Interrupted; Deliver 3]) = RErr EIntr.
Proof. reflexivity. Qed.
Example partial_then_error : res (read_n_impl 5 10 [Deliver 2; Fail 7]) = ROk 2.
Proof. reflexivity. Qed.
Print Assumptions C17_read_n.
