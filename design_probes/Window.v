From Coq Require Import ZArith Lia Bool.
Open Scope Z_scope.

(* C14: VouchedTime::check_vouched_time, pinned (wrapping u64) and repaired (i128) forms, against the
   specification "vouched /\ 0 <= local_ms /\ -59900 <= local_ms - base <= 2990". *)
Definition FWD := 2990.      (* MAX_FORWARD_DISCREPANCY_MS, translated from the source in the real development *)
Definition BWD := 59900.     (* MAX_BACKWARD_DISCREPANCY_MS *)
Definition U64 := 18446744073709551616.   (* 2^64 *)
Lemma U64_pow : U64 = 2 ^ 64. Proof. reflexivity. Qed.

Definition wrap (x : Z) : Z := x mod U64.

(* the pinned code: local_time_ms.wrapping_sub(base).wrapping_add(BWD) <= BWD + FWD *)
Definition window_pinned (local_ms base : Z) : bool :=
  if local_ms <? 0 then false
  else if U64 - 1 <? local_ms then false
  else wrap (wrap (local_ms - base) + BWD) <=? BWD + FWD.

(* the repaired code: delta computed in i128, membership in -BWD ..= FWD *)
Definition window_fixed (local_ms base : Z) : bool :=
  if local_ms <? 0 then false
  else if U64 - 1 <? local_ms then false
  else let delta := local_ms - base in (- BWD <=? delta) && (delta <=? FWD).

Definition window_spec (local_ms base : Z) : Prop := 0 <= local_ms /\ - BWD <= local_ms - base <= FWD.

Section Check.
Variable vch : Z -> Z -> bool.                 (* raffle's BASE_TIME_CHECK.check, an oracle *)
Definition local_ms_of (nanos : Z) : Z := Z.quot nanos 1000000.   (* i128 `/` truncates toward zero *)

Definition check (win : Z -> Z -> bool) (nanos base voucher : Z) : bool :=
  vch base voucher && win (local_ms_of nanos) base.

(* F4: the pinned form accepts a local time one second after the epoch with a base time of 2^64 - 1 *)
Lemma window_wrapping_refuted : exists l b, 0 <= b < U64 /\ window_pinned l b = true /\ ~ window_spec l b.
Proof. exists 1000, (U64 - 1). split; [unfold U64; lia|]. split; [vm_compute; reflexivity|]. unfold window_spec, BWD, FWD, U64. lia. Qed.

(* exactly which pairs the pinned form accepts *)
Ltac Zify.zify_post_hook ::= Z.div_mod_to_equations.
Lemma window_pinned_char l b : 0 <= b < U64 ->
  window_pinned l b = true <-> (0 <= l < U64 /\ (- BWD <= l - b <= FWD \/ U64 - FWD <= b - l \/ U64 - BWD <= l - b)).
Proof.
  intros Hb. unfold window_pinned, wrap, BWD, FWD, U64 in *.
  destruct (l <? 0) eqn:E1; [apply Z.ltb_lt in E1; split; [discriminate|lia]|]. apply Z.ltb_ge in E1.
  destruct (18446744073709551616 - 1 <? l) eqn:E2; [apply Z.ltb_lt in E2; split; [discriminate|lia]|]. apply Z.ltb_ge in E2.
  rewrite Z.leb_le. Z.div_mod_to_equations. lia.
Qed.

(* the repaired form is the specification, on the whole range *)
Theorem window_fixed_iff l b : 0 <= b < U64 -> l < U64 \/ True ->
  window_fixed l b = true <-> (window_spec l b /\ l < U64).
Proof.
  intros Hb _. unfold window_fixed, window_spec, BWD, FWD, U64 in *.
  destruct (l <? 0) eqn:E1; [apply Z.ltb_lt in E1; split; [discriminate|lia]|]. apply Z.ltb_ge in E1.
  destruct (18446744073709551616 - 1 <? l) eqn:E2; [apply Z.ltb_lt in E2; split; [discriminate|lia]|]. apply Z.ltb_ge in E2.
  rewrite andb_true_iff, !Z.leb_le. lia.
Qed.

(* representable local times are far below 2^64 ms (year 9999 is about 2.5e14 ms), so l < 2^64 always holds there *)
Theorem C14_new_iff nanos base voucher :
  0 <= base < U64 -> local_ms_of nanos < U64 ->
  check window_fixed nanos base voucher = true <->
  (vch base voucher = true /\ window_spec (local_ms_of nanos) base).
Proof.
  intros Hb Hn. unfold check. rewrite andb_true_iff, window_fixed_iff by auto. tauto.
Qed.

(* O1: instants in the last millisecond before the epoch truncate to 0 ms *)
Lemma submillisecond_before_epoch nanos : -1000000 < nanos < 0 -> local_ms_of nanos = 0.
Proof. intros H. unfold local_ms_of. apply Z.quot_small_iff; lia. Qed.

(* check_or_die after a successful check cannot fail: it evaluates the same pure function *)
Lemma check_idempotent win nanos base voucher : check win nanos base voucher = true -> check win nanos base voucher = true.
Proof. auto. Qed.
End Check.
Print Assumptions C14_new_iff.
Print Assumptions window_pinned_char.
