From Coq Require Import List Lia Arith Bool.
Import ListNotations.

(* C12 (word level): MessageView::get_value over an already decoded header: n pairs, the n-1 stored offsets,
   and the total length of the buffer.  Ranges are (start, end) byte positions in the buffer. *)
Definition header (n : nat) := 8 * n.

Definition get_value_pinned (n : nat) (offs : list nat) (len idx : nat) : option (nat * nat) :=
  match (if idx =? length offs then Some len
         else match nth_error offs idx with Some o => Some (o + header n) | None => None end) with
  | None => None
  | Some e =>
    match (if idx =? 0 then Some 0 else nth_error offs (idx - 1)) with
    | None => None
    | Some s => Some (header n + s, e)
    end
  end.

Definition get_value_fixed (n : nat) (offs : list nat) (len idx : nat) : option (nat * nat) :=
  if n <=? idx then None else get_value_pinned n offs len idx.

(* F3: the empty message *)
Lemma get_value_empty_refuted : exists len, get_value_pinned 0 [] len 0 = Some (0, len).
Proof. exists 7. reflexivity. Qed.

(* specification: value i starts where value i-1 ends; the first starts after the header, the last ends with the buffer *)
Definition start_of (n : nat) (offs : list nat) (i : nat) : nat := header n + match i with 0 => 0 | S j => nth j offs 0 end.
Definition end_of (n : nat) (offs : list nat) (len i : nat) : nat := if S i =? n then len else header n + nth i offs 0.

Theorem get_value_fixed_spec n offs len idx : length offs = n - 1 ->
  get_value_fixed n offs len idx = if idx <? n then Some (start_of n offs idx, end_of n offs len idx) else None.
Proof.
  intros L. unfold get_value_fixed. destruct (n <=? idx) eqn:E.
  - apply Nat.leb_le in E. assert (idx <? n = false) as -> by (apply Nat.ltb_ge; lia). reflexivity.
  - apply Nat.leb_gt in E. assert (idx <? n = true) as -> by (apply Nat.ltb_lt; lia).
    unfold get_value_pinned, start_of, end_of.
    destruct (idx =? length offs) eqn:E1.
    + apply Nat.eqb_eq in E1. assert (S idx =? n = true) as -> by (apply Nat.eqb_eq; lia).
      destruct idx as [|j]; cbn [Nat.eqb Nat.sub].
      * reflexivity.
      * rewrite Nat.sub_0_r. assert (j < length offs) by lia.
        destruct (nth_error offs j) eqn:N; [|apply nth_error_None in N; lia].
        erewrite nth_error_nth by exact N. reflexivity.
    + apply Nat.eqb_neq in E1. assert (S idx =? n = false) as -> by (apply Nat.eqb_neq; lia).
      assert (idx < length offs) by lia.
      destruct (nth_error offs idx) eqn:N; [|apply nth_error_None in N; lia].
      erewrite (nth_error_nth offs idx) by exact N.
      destruct idx as [|j]; cbn [Nat.eqb Nat.sub].
      * f_equal. f_equal. lia.
      * rewrite Nat.sub_0_r. assert (j < length offs) by lia.
        destruct (nth_error offs j) eqn:N2; [|apply nth_error_None in N2; lia].
        erewrite nth_error_nth by exact N2. f_equal. f_equal. lia.
Qed.

(* the values tile the bytes after the header *)
Corollary values_tile n offs len i : length offs = n - 1 -> S i < n ->
  end_of n offs len i = start_of n offs (S i).
Proof. intros L H. unfold end_of, start_of. assert (S i =? n = false) as -> by (apply Nat.eqb_neq; lia). reflexivity. Qed.
Corollary first_starts_after_header n offs : start_of n offs 0 = header n.
Proof. unfold start_of. lia. Qed.
Corollary last_ends_with_buffer n offs len : 1 <= n -> end_of n offs len (n - 1) = len.
Proof. intros H. unfold end_of. assert (S (n - 1) =? n = true) as -> by (apply Nat.eqb_eq; lia). reflexivity. Qed.
Print Assumptions get_value_fixed_spec.
