From Coq Require Import List NArith Lia Bool Arith.
Import ListNotations.
Open Scope N_scope.

(* C19: nfs_voucher as a state machine over (trusted devices, base time); the filesystem is an oracle that
   supplies (dev, ctime_ms) or an I/O error for every stat; the wall-clock refresh policy is an arbitrary boolean. *)
Section Nfs.
Variable vouch : N -> N.                 (* raffle VOUCH_PARAMS.vouch *)
Variable check : N -> N -> bool.         (* BASE_TIME_CHECK.check *)
Hypothesis vouch_checks : forall t, check t (vouch t) = true.

Record st := { trusted : list N; base : N }.
Definition init : st := {| trusted := []; base := 0 |}.

Inductive stat := StatOk (dev ctime : N) | StatErr.

(* AtomicBaseTime::update / try_update, single-threaded: accepted iff not older than the current value *)
Definition advance (s : st) (t : N) : st := if t <? base s then s else {| trusted := trusted s; base := t |}.

Definition is_trusted (s : st) (dev : N) : bool := existsb (N.eqb dev) (trusted s).

(* update_base_time(file, opts): returns the new state and Ok(Some(update)) / Ok(None) / Err *)
Inductive upd_res := UErr | UNone | USome (t v : N).
Definition update_base_time (s : st) (f : stat) (extra : option N) : st * upd_res :=
  match f with
  | StatErr => (s, UErr)
  | StatOk dev ctime =>
    if is_trusted s dev || match extra with Some d => N.eqb d dev | None => false end
    then (advance s ctime, USome ctime (vouch ctime))
    else (s, UNone)
  end.

Inductive op :=
| AddTrusted (f : stat)                  (* add_trusted_path: stat of the opened path *)
| Observe (f : stat)                     (* observe_file_time *)
| MaybeObserve (refresh : bool) (f : stat)
| Scan (refresh : bool) (files : list stat)   (* scan_base_time: one stat per trusted path, in order *)
| GetBase (refresh : bool) (files : list stat)
| GetUnlocked.

Fixpoint scan_impl (s : st) (files : list stat) : st * upd_res :=
  match files with
  | [] => (s, UErr)
  | f :: t => match update_base_time s f None with
              | (s', USome a b) => (s', USome a b)
              | (s', _) => scan_impl s' t
              end
  end.

Definition step (s : st) (o : op) : st * upd_res :=
  match o with
  | AddTrusted f =>
      match f with
      | StatErr => (s, UErr)
      | StatOk dev _ =>
        match update_base_time s f (Some dev) with
        | (s', USome a b) => ({| trusted := dev :: trusted s'; base := base s' |}, USome a b)
        | r => r
        end
      end
  | Observe f => update_base_time s f None
  | MaybeObserve refresh f => if refresh then (fst (update_base_time s f None), UNone) else (s, UNone)
  | Scan refresh files => if refresh then scan_impl s files else (s, UNone)
  | GetBase refresh files => if refresh then scan_impl s files else (s, USome (base s) (vouch (base s)))
  | GetUnlocked => (s, USome (base s) (vouch (base s)))
  end.

(* ---- theorems ---- *)
Definition of_stat (f : stat) : list (N * N) := match f with StatOk d c => [(d, c)] | StatErr => [] end.
Definition evidence (o : op) : list (N * N) :=   (* (dev, ctime) pairs presented by the operation *)
  match o with
  | AddTrusted f | Observe f | MaybeObserve _ f => of_stat f
  | Scan _ fs | GetBase _ fs => flat_map of_stat fs
  | GetUnlocked => []
  end.

Lemma advance_mono s t : base s <= base (advance s t) /\ (base (advance s t) = base s \/ base (advance s t) = t) /\ trusted (advance s t) = trusted s.
Proof.
  unfold advance. destruct (t <? base s) eqn:E; cbn [base trusted].
  - repeat split; auto. lia.
  - apply N.ltb_ge in E. repeat split; auto.
Qed.

Lemma update_props s f extra s' r : update_base_time s f extra = (s', r) ->
  base s <= base s' /\ trusted s' = trusted s /\
  (base s' <> base s -> exists dev, f = StatOk dev (base s') /\ (is_trusted s dev = true \/ extra = Some dev)) /\
  (forall dev c, f = StatOk dev c -> is_trusted s dev = false -> extra <> Some dev -> s' = s /\ r = UNone) /\
  (forall t v, r = USome t v -> check t v = true).
Proof.
  unfold update_base_time. destruct f as [dev ctime|]; [|intros H; inversion H; subst; split; [lia|]; split; [reflexivity|]; split; [congruence|]; split; [intros; discriminate|intros; discriminate]].
  destruct (is_trusted s dev || _) eqn:E.
  - intros H; inversion H; subst. destruct (advance_mono s ctime) as (A & B & C).
    split; [exact A|]. split; [exact C|]. split; [|split].
    + intros Hne. exists dev. destruct B as [B|B]; [congruence|]. rewrite B. split; auto.
      apply orb_prop in E as [E|E]; auto. right. destruct extra; [apply N.eqb_eq in E; now subst|discriminate].
    + intros d c0 Hf Hnt Hne. inversion Hf; subst. rewrite Hnt in E. cbn [orb] in E. destruct extra; [apply N.eqb_eq in E; congruence|discriminate].
    + intros t v Hr. inversion Hr; subst. apply vouch_checks.
  - intros H; inversion H; subst. split; [lia|]. split; [reflexivity|]. split; [congruence|]. split; [auto|intros; discriminate].
Qed.

Lemma scan_props : forall files s s' r, scan_impl s files = (s', r) ->
  base s <= base s' /\ trusted s' = trusted s /\
  (base s' <> base s -> exists dev, In (dev, base s') (flat_map of_stat files) /\ is_trusted s dev = true) /\
  (forall t v, r = USome t v -> check t v = true).
Proof.
  induction files as [|f fs IH]; intros s s' r H; cbn [scan_impl] in H.
  - inversion H; subst. split; [lia|]. split; [reflexivity|]. split; [congruence|intros; discriminate].
  - destruct (update_base_time s f None) as [s1 r1] eqn:U.
    destruct (update_props _ _ _ _ _ U) as (A & B & C & D & E).
    assert (Hfirst : base s1 <> base s -> exists dev, In (dev, base s1) (flat_map of_stat (f :: fs)) /\ is_trusted s dev = true).
    { intros Hne. destruct (C Hne) as (d & Hd & [T|X]); [|discriminate]. exists d. subst f. split; [cbn; now left|auto]. }
    assert (Hrest : forall s2 r2, scan_impl s1 fs = (s2, r2) ->
              base s <= base s2 /\ trusted s2 = trusted s /\
              (base s2 <> base s -> exists dev, In (dev, base s2) (flat_map of_stat (f :: fs)) /\ is_trusted s dev = true) /\
              (forall t v, r2 = USome t v -> check t v = true)).
    { intros s2 r2 H2. destruct (IH _ _ _ H2) as (A2 & B2 & C2 & E2). split; [lia|]. split; [congruence|]. split; auto.
      intros Hne. destruct (N.eq_dec (base s2) (base s1)) as [Eq|Ne].
      - rewrite Eq in *. apply Hfirst. exact Hne.
      - destruct (C2 Ne) as (d & Hin & Ht). exists d. split; [cbn [flat_map]; apply in_or_app; right; exact Hin|].
        unfold is_trusted in *. now rewrite <- B. }
    destruct r1; [apply Hrest; exact H|apply Hrest; exact H|].
    inversion H; subst. split; [exact A|]. split; [exact B|]. split; [exact Hfirst|exact E].
Qed.

(* every returned pair passes the voucher check, the base never decreases, and it only moves to a presented ctime
   of a device that is trusted (or being registered by this very call) *)
Ltac unchanged := let H := fresh in let Hr := fresh in let Hne := fresh in
  intros H; inversion H; subst; split; [lia|]; split;
  [intros ? ? Hr; try discriminate; try (inversion Hr; subst; apply vouch_checks)|intros Hne; congruence].

Theorem C19_step s o s' r : step s o = (s', r) ->
  base s <= base s' /\
  (forall t v, r = USome t v -> check t v = true) /\
  (base s' <> base s -> exists dev, In (dev, base s') (evidence o) /\
        (is_trusted s dev = true \/ exists c, o = AddTrusted (StatOk dev c))).
Proof.
  destruct o as [f|f|refresh f|refresh files|refresh files|]; cbn [step evidence].
  - destruct f as [dev ctime|]; [|unchanged].
    destruct (update_base_time s (StatOk dev ctime) (Some dev)) as [s1 r1] eqn:U.
    destruct (update_props _ _ _ _ _ U) as (A & B & C & D & E).
    assert (Hev : base s1 <> base s -> exists dev0, In (dev0, base s1) (of_stat (StatOk dev ctime)) /\
                    (is_trusted s dev0 = true \/ exists c, AddTrusted (StatOk dev ctime) = AddTrusted (StatOk dev0 c))).
    { intros Hne. destruct (C Hne) as (d & Hd & _). inversion Hd; subst. exists d. split; [now left|]. right. eauto. }
    destruct r1; intros H; inversion H; subst; cbn [base]; (split; [exact A|]; split; [exact E|exact Hev]).
  - intros U. destruct (update_props _ _ _ _ _ U) as (A & B & C & D & E). split; [exact A|]. split; [exact E|].
    intros Hne. destruct (C Hne) as (d & Hd & [T|X]); [|discriminate]. exists d. subst f. split; [now left|auto].
  - destruct refresh; [|unchanged].
    destruct (update_base_time s f None) as [s1 r1] eqn:U. destruct (update_props _ _ _ _ _ U) as (A & B & C & D & E).
    intros H; inversion H; subst. cbn [fst]. split; [exact A|]. split; [intros; discriminate|].
    intros Hne. destruct (C Hne) as (d & Hd & [T|X]); [|discriminate]. exists d. subst f. split; [now left|auto].
  - destruct refresh; [|unchanged].
    intros H. destruct (scan_props _ _ _ _ H) as (A & B & C & E). split; [exact A|]. split; [exact E|].
    intros Hne. destruct (C Hne) as (d & Hin & Ht). exists d. auto.
  - destruct refresh; [|unchanged].
    intros H. destruct (scan_props _ _ _ _ H) as (A & B & C & E). split; [exact A|]. split; [exact E|].
    intros Hne. destruct (C Hne) as (d & Hin & Ht). exists d. auto.
  - unchanged.
Qed.

(* along any history the base time never decreases *)
Theorem C19_monotone ops : forall s, base s <= base (fold_left (fun s o => fst (step s o)) ops s).
Proof.
  induction ops as [|o ops IH]; intros s; cbn [fold_left]; [lia|].
  destruct (step s o) as [s1 r1] eqn:E. destruct (C19_step _ _ _ _ E) as (A & _). cbn [fst].
  specialize (IH s1). lia.
Qed.
End Nfs.
Print Assumptions C19_step.
