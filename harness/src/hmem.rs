//! Families `hmem` and `smem` (C05, implementation-side predicate only): memory liveness of everything
//! the HCOBS layers hand out.
//!
//! `hmem` takes the case lines of family `hcobs`.  Anchored and read pieces are read into a caller-side
//! arena that is dropped right after the call, so that only the anchor pushed by encode_anchored /
//! decode_anchored keeps the input chunk alive; borrowed pieces are leaked buffers the harness owns.
//! After every operation -- also after a decoding error -- every slice of the codec's iovec must lie in a
//! live arena chunk (hook registry) or in a harness buffer, and the bytes seen so far must not change.
//!
//! `smem` takes the case lines of family `reader`: the record judge inspects the partially decoded record
//! on every call, returned records are taken and kept, and everything is checked again at the end.
//! Fields: [flags per check (1 = ok)...], [number of checks].
use crate::hcobs_fam::{drain, stable_bytes, Dec, Enc};
use crate::util::*;
use hcobs::StreamReader;
use owning_iovec::{ByteArena, ConsumingIovec, OwningIovec};
use std::num::NonZeroUsize;

struct Mem {
    statics: Vec<(usize, usize)>,
}

impl Mem {
    fn leak(&mut self, b: Vec<u8>) -> &'static [u8] {
        let s: &'static [u8] = Box::leak(b.into_boxed_slice());
        self.statics.push((s.as_ptr() as usize, s.as_ptr() as usize + s.len()));
        s
    }
    fn slices_live(&self, slices: &[(usize, usize)]) -> bool {
        let live = ByteArena::verif_live_ranges();
        slices.iter().all(|(a, l)| {
            *l == 0
                || live.iter().any(|(s, e)| s <= a && a + l <= *e)
                || self.statics.iter().any(|(s, e)| s <= a && a + l <= *e)
        })
    }
    fn iov_live(&self, io: &OwningIovec<'_>) -> bool {
        self.slices_live(&io.verif_view().0)
    }
}

/// Gives the allocator a reason to recycle freed chunks.
fn churn() -> usize {
    let v: Vec<Vec<u8>> = (0..4).map(|i| vec![b'Z'; 1024 << i]).collect();
    v.iter().map(|x| x.len()).sum()
}

pub fn run_hmem(line: &str) -> Obs {
    let t: Vec<&str> = line.split_whitespace().collect();
    let prod = t[0] == "P";
    let (mi, ms) = if prod { hcobs::verif_hooks::prod_params() } else { (t[0].parse().unwrap(), t[1].parse().unwrap()) };
    let dpos = t.iter().position(|x| *x == "D").unwrap();
    let eops = &t[3..dpos];
    let mut dops: Vec<&str> = t[dpos + 1..].to_vec();
    let explicit: Option<Vec<u8>> = if !dops.is_empty() && dops[0].starts_with('X') { Some(unhex(&dops.remove(0)[1..])) } else { None };
    let mut mem = Mem { statics: Vec::new() };
    let mut flags: Vec<i128> = Vec::new();
    let r = catch(|| {
        // ---------------- encoder ----------------
        let mut enc = if prod { Enc::Prod(hcobs::Encoder::new()) } else { Enc::Param(hcobs::verif_hooks::ParamEncoder::new(mi, ms)) };
        let mut drained: Vec<u8> = Vec::new();
        let mut prev: Vec<u8> = Vec::new();
        for op in eops {
            let (k, v) = op.split_once(':').unwrap();
            if k.starts_with('d') {
                let got = drain(&mut enc.consumer(), k, v.parse().unwrap());
                drained.extend(got);
            } else {
                let data = unhex(v);
                match k {
                    "b" => {
                        let d = mem.leak(data);
                        match &mut enc {
                            Enc::Prod(e) => e.encode(d),
                            Enc::Param(e) => e.encode(d),
                        }
                    }
                    "c" => match &mut enc {
                        Enc::Prod(e) => e.encode_copy(&data),
                        Enc::Param(e) => e.encode_copy(&data),
                    },
                    _ => {
                        let mut caller = ByteArena::new();
                        let s = caller.read_n(&data[..], data.len(), NonZeroUsize::MAX).unwrap();
                        match &mut enc {
                            Enc::Prod(e) => e.encode_anchored(s),
                            Enc::Param(e) => e.encode_anchored(s),
                        }
                        drop(caller);
                        churn();
                    }
                }
            }
            let c = enc.consumer();
            let live = mem.iov_live(&c);
            let mut snap = drained.clone();
            if live {
                snap.extend(stable_bytes(&c));
            }
            flags.push((live && (!live || snap.starts_with(&prev))) as i128);
            if live {
                prev = snap;
            }
        }
        let fin = match enc {
            Enc::Prod(e) => e.finish(),
            Enc::Param(e) => e.finish(),
        };
        let live = mem.iov_live(&fin);
        flags.push(live as i128);
        let mut out = drained.clone();
        if live {
            out.extend(fin.flatten().expect("no backpatch left after finish"));
            flags.push(out.starts_with(&prev) as i128);
        }

        // ---------------- decoder ----------------
        let input: Vec<u8> = explicit.clone().unwrap_or(out.clone());
        let mut dec = if prod { Dec::Prod(hcobs::Decoder::new()) } else { Dec::Param(hcobs::verif_hooks::ParamDecoder::new(mi, ms)) };
        let mut pos = 0usize;
        let mut ddrained: Vec<u8> = Vec::new();
        let mut dprev: Vec<u8> = Vec::new();
        let mut failed = false;
        let mut dops2: Vec<String> = dops.iter().map(|s| s.to_string()).collect();
        dops2.push(format!("a:{}", input.len())); // whatever is left goes in as one anchored piece
        for op in &dops2 {
            let (k, v) = op.split_once(':').unwrap();
            let n: usize = v.parse().unwrap();
            if k.starts_with('d') {
                let got = drain(&mut dec.consumer(), k, n);
                ddrained.extend(got);
            } else if !failed {
                let end = (pos + n).min(input.len());
                let piece = input[pos..end].to_vec();
                pos = end;
                if piece.is_empty() {
                    continue;
                }
                let ok = match k {
                    "b" => {
                        let d = mem.leak(piece);
                        match &mut dec {
                            Dec::Prod(e) => e.decode(d).is_ok(),
                            Dec::Param(e) => e.decode(d).is_ok(),
                        }
                    }
                    "c" => match &mut dec {
                        Dec::Prod(e) => e.decode_copy(&piece).is_ok(),
                        Dec::Param(e) => e.decode_copy(&piece).is_ok(),
                    },
                    _ => {
                        let mut caller = ByteArena::new();
                        let s = caller.read_n(&piece[..], piece.len(), NonZeroUsize::MAX).unwrap();
                        let ok = match &mut dec {
                            Dec::Prod(e) => e.decode_anchored(s).is_ok(),
                            Dec::Param(e) => e.decode_anchored(s).is_ok(),
                        };
                        drop(caller);
                        churn();
                        ok
                    }
                };
                failed = !ok;
            }
            // also after an error: what the decoder still exposes must be live and unchanged
            let c = dec.consumer();
            let live = mem.iov_live(&c);
            let mut snap = ddrained.clone();
            if live {
                snap.extend(stable_bytes(&c));
            }
            flags.push((live && snap.starts_with(&dprev)) as i128);
            if live {
                dprev = snap;
            }
        }
        if !failed {
            let fin = match dec {
                Dec::Prod(e) => e.finish().ok(),
                Dec::Param(e) => e.finish().ok(),
            };
            if let Some(io) = fin {
                let live = mem.iov_live(&io);
                flags.push(live as i128);
                if live {
                    let mut o = ddrained.clone();
                    o.extend(io.flatten().expect("decoder output has no placeholder"));
                    flags.push(o.starts_with(&dprev) as i128);
                }
            }
        }
    });
    if r.is_err() {
        flags.push(-99);
    }
    let n = flags.len() as i128;
    vec![flags, vec![n]]
}

pub fn run_smem(line: &str) -> Obs {
    use std::cell::RefCell;
    let t: Vec<&str> = line.split_whitespace().collect();
    let bs: Option<usize> = if t[0] == "-" { None } else { Some(t[0].parse().unwrap()) };
    let max: usize = if t[1] == "-" { usize::MAX } else { t[1].parse().unwrap() };
    let limit: Option<u64> = if t[2] == "-" { None } else { Some(t[2].parse().unwrap()) };
    let stream = unhex(t[3]);
    let mem = Mem { statics: Vec::new() };
    let flags: RefCell<Vec<i128>> = RefCell::new(Vec::new());
    let r = catch(|| {
        let mut rd = crate::stream::Sched::new(&stream, t[4..].to_vec());
        let inner = StreamReader::chunk_judge(max, limit);
        // what the judge saw of the record in progress: (record start, bytes)
        let seen: RefCell<(u64, Vec<u8>)> = RefCell::new((u64::MAX, Vec::new()));
        let judge = |range: std::ops::Range<u64>, iov: ConsumingIovec<'_>| {
            let live = mem.slices_live(&iov.verif_view().0);
            let mut ok = live;
            if live {
                let now = stable_bytes(&iov);
                let mut s = seen.borrow_mut();
                if s.0 == range.start {
                    ok = now.starts_with(&s.1) || s.1.starts_with(&now);
                }
                *s = (range.start, now);
            }
            flags.borrow_mut().push(ok as i128);
            inner(range, iov)
        };
        let mut reader = StreamReader::new();
        let mut kept: Vec<(Vec<u8>, OwningIovec<'static>)> = Vec::new();
        for _ in 0..(stream.len() + 3) {
            match reader.next_record_bytes(&mut rd, &judge, bs).expect("no hard error") {
                None => break,
                Some((iov, _range)) => {
                    let live = mem.iov_live(iov);
                    flags.borrow_mut().push(live as i128);
                    if live {
                        let bytes = iov.flatten().expect("record has no placeholder");
                        kept.push((bytes, iov.take()));
                    }
                    churn();
                }
            }
        }
        drop(reader);
        churn();
        for (bytes, io) in &kept {
            let live = mem.iov_live(io);
            flags.borrow_mut().push((live && io.flatten().map(|b| &b == bytes).unwrap_or(false)) as i128);
        }
    });
    let mut flags = flags.into_inner();
    if r.is_err() {
        flags.push(-99);
    }
    let n = flags.len() as i128;
    vec![flags, vec![n]]
}
