//! Family `nfs` (C19): one forked process per history (TRUSTED_PATHS and BASE_TIME are process-wide).
//!
//! Case: `;`-separated ops
//!   `at <s1> <s2>`   add_trusted_path on a fresh path; s1 is the stat add_trusted_path looks at, s2 update_base_time's
//!   `ob <s>`         observe_file_time          `mo <s>`  maybe_observe_file_time
//!   `sc <s>*`        scan_base_time             `gb <now_nanos> <s>*`  get_base_time(now)
//!   `gu`             get_base_time_unlocked     `zz`  sleep 105 ms (reported with code 7)
//!   `atr` / `obr <0|1>` / `gbr <now_nanos>`     the same on the real filesystem (no stand-in stats):
//!                    obr 0 observes a file next to the trusted path, obr 1 observes /proc/self/stat
//! A stat `s` is `dev:ctime:nsec` or `e` (I/O error); they are fed through hook nfs_voucher::verif_hooks.
//! Per op: [code, t, v, base after, trusted devices, stats consumed, (real ops: dev, ctime, nsec seen)]
//! code 0 Ok(Some(t,v)) / 1 Ok(None) / 2 Err / 3 Ok(()) / 9 panic; v = t + K when the voucher is the
//! one VOUCH_PARAMS gives t and VouchedTime::check accepts the pair, else -1.
use crate::util::*;
use std::io::{Read, Write};
use std::os::unix::fs::MetadataExt;
use std::os::unix::io::FromRawFd;
use vouched_time::nfs_voucher as nv;

const VOUCH: raffle::VouchingParameters = raffle::VouchingParameters::parse_or_die(
    "VOUCH-773ec2a0e62c20cd-f9e079b78e895091-fc1da7b1b77c57cb-594b9cce3091464a",
);
const K: i128 = 1000003;

fn bits(v: raffle::Voucher) -> u64 {
    unsafe { std::mem::transmute::<raffle::Voucher, u64>(v) }
}

fn vshow(t: u64, v: raffle::Voucher) -> i128 {
    if bits(v) != bits(VOUCH.vouch(t)) {
        return -1;
    }
    // VouchedTime's own check, at a local time equal to the base time (when representable)
    if let Ok(odt) = time::OffsetDateTime::from_unix_timestamp_nanos(t as i128 * 1_000_000) {
        let local = time::PrimitiveDateTime::new(odt.date(), odt.time());
        if vouched_time::VouchedTime::check(local, t, v).is_err() {
            return -1;
        }
    }
    t as i128 + K
}

fn parse_stat(s: &str) -> Option<(u64, i64, i64)> {
    if s == "e" {
        return None;
    }
    let p: Vec<&str> = s.split(':').collect();
    Some((p[0].parse().unwrap(), p[1].parse().unwrap(), p[2].parse().unwrap()))
}

fn now_unlocked() -> (u64, raffle::Voucher) {
    nv::get_base_time_unlocked(time::OffsetDateTime::UNIX_EPOCH).expect("unlocked never fails")
}

fn child(line: &str, dir: &std::path::Path) -> Obs {
    let mut obs: Obs = Vec::new();
    std::fs::create_dir_all(dir).unwrap();
    let obs_path = dir.join("observed");
    std::fs::write(&obs_path, b"x").unwrap();
    let mut real_trusted: Vec<std::path::PathBuf> = Vec::new();
    for (n, op) in line.split(';').enumerate() {
        let t: Vec<&str> = op.split_whitespace().collect();
        if t.is_empty() {
            continue;
        }
        let stats: Vec<Option<(u64, i64, i64)>> = match t[0] {
            "at" | "ob" | "mo" | "sc" => t[1..].iter().map(|s| parse_stat(s)).collect(),
            "gb" => t[2..].iter().map(|s| parse_stat(s)).collect(),
            _ => Vec::new(),
        };
        let nstats = stats.len();
        nv::verif_hooks::set_stats(stats);
        let mut seen: Vec<i128> = Vec::new();
        let r = catch(|| -> Vec<i128> {
            match t[0] {
                "at" | "atr" => {
                    let path = dir.join(format!("trusted{n}"));
                    let r = nv::add_trusted_path(path.clone());
                    if t[0] == "atr" {
                        let m = std::fs::metadata(&path).unwrap();
                        seen = vec![m.dev() as i128, m.ctime() as i128, m.ctime_nsec() as i128];
                        if r.is_ok() {
                            real_trusted.push(path);
                        }
                    }
                    match r {
                        Ok(()) => vec![3, 0, 0],
                        Err(_) => vec![2, 0, 0],
                    }
                }
                "ob" | "obr" => {
                    let path = if t[0] == "obr" && t[1] == "1" {
                        std::path::PathBuf::from("/proc/self/stat")
                    } else {
                        obs_path.clone()
                    };
                    let file = std::fs::File::open(&path).unwrap();
                    let r = nv::observe_file_time(&file);
                    match r {
                        Ok((m, x)) => {
                            if t[0] == "obr" {
                                seen = vec![m.dev() as i128, m.ctime() as i128, m.ctime_nsec() as i128];
                            }
                            match x {
                                Some((bt, v)) => vec![0, bt as i128, vshow(bt, v)],
                                None => vec![1, 0, 0],
                            }
                        }
                        Err(_) => vec![2, 0, 0],
                    }
                }
                "mo" => {
                    let file = std::fs::File::open(&obs_path).unwrap();
                    nv::maybe_observe_file_time(&file);
                    vec![3, 0, 0]
                }
                "sc" => match nv::scan_base_time() {
                    Ok(()) => vec![3, 0, 0],
                    Err(_) => vec![2, 0, 0],
                },
                "gb" | "gbr" => {
                    let now: i128 = t[1].parse().unwrap();
                    let now = time::OffsetDateTime::from_unix_timestamp_nanos(now).expect("representable now");
                    let r = nv::get_base_time(now);
                    if t[0] == "gbr" {
                        if let Some(p) = real_trusted.first() {
                            let m = std::fs::metadata(p).unwrap();
                            seen = vec![m.dev() as i128, m.ctime() as i128, m.ctime_nsec() as i128];
                        }
                    }
                    match r {
                        Ok((bt, v)) => vec![0, bt as i128, vshow(bt, v)],
                        Err(_) => vec![2, 0, 0],
                    }
                }
                "gu" => {
                    let (bt, v) = now_unlocked();
                    vec![0, bt as i128, vshow(bt, v)]
                }
                "zz" => {
                    // let the 100 ms rate limit of should_refresh_base_time expire
                    std::thread::sleep(std::time::Duration::from_millis(105));
                    vec![7, 0, 0]
                }
                _ => panic!("unknown op"),
            }
        });
        let consumed = nstats - nv::verif_hooks::pending_stats().min(nstats);
        nv::verif_hooks::set_stats(Vec::new());
        let panicked = r.is_err();
        let mut f = r.unwrap_or_else(|_| vec![9, 0, 0]);
        f.push(now_unlocked().0 as i128);
        f.push(nv::verif_hooks::trusted_devices().len() as i128);
        f.push(consumed as i128);
        f.extend(seen);
        obs.push(f);
        if panicked {
            break;
        }
    }
    obs
}

pub fn run(line: &str) -> Obs {
    let mut fds = [0i32; 2];
    assert!(unsafe { libc::pipe(fds.as_mut_ptr()) } == 0);
    let tmp = std::env::var("WP_TMP").unwrap_or_else(|_| "/verif/.cache/tmp".to_string());
    let pid = unsafe { libc::fork() };
    assert!(pid >= 0, "fork");
    if pid == 0 {
        unsafe { libc::close(fds[0]) };
        let dir = std::path::PathBuf::from(format!("{tmp}/nfs-{}", std::process::id()));
        let o = child(line, &dir);
        let _ = std::fs::remove_dir_all(&dir);
        let mut w = unsafe { std::fs::File::from_raw_fd(fds[1]) };
        let _ = w.write_all(to_json(&o).as_bytes());
        let _ = w.flush();
        drop(w);
        unsafe { libc::_exit(0) };
    }
    unsafe { libc::close(fds[1]) };
    let mut r = unsafe { std::fs::File::from_raw_fd(fds[0]) };
    let mut s = String::new();
    let _ = r.read_to_string(&mut s);
    let mut status = 0i32;
    unsafe { libc::waitpid(pid, &mut status, 0) };
    let _ = std::fs::remove_dir_all(format!("{tmp}/nfs-{pid}"));
    if s.is_empty() {
        return vec![vec![99]];
    }
    parse_json(&s)
}

fn parse_json(s: &str) -> Obs {
    let mut out: Obs = Vec::new();
    let mut cur: Option<Vec<i128>> = None;
    let mut num = String::new();
    let mut depth = 0;
    for ch in s.chars() {
        match ch {
            '[' => {
                depth += 1;
                if depth == 2 {
                    cur = Some(Vec::new());
                }
            }
            ']' | ',' => {
                if !num.is_empty() {
                    if let Some(c) = cur.as_mut() {
                        c.push(num.parse().unwrap());
                    }
                    num.clear();
                }
                if ch == ']' {
                    if depth == 2 {
                        out.push(cur.take().unwrap());
                    }
                    depth -= 1;
                }
            }
            c if c == '-' || c.is_ascii_digit() => num.push(c),
            _ => {}
        }
    }
    out
}
