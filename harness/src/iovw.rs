//! Family `iovw` (C03, C04, C05, C10, C20): a world of up to four OwningIovecs.
//!   `{ @<i>:<op> }*` with op one of
//!   new | pu:<hex> (push) | pc:<hex> (push_copy) | pb:<hex> (push_borrowed) | ex:<hex>,<hex>.. (extend)
//!   | an:<hex>[:<count>] (read_n of count bytes (default: all) into the object's arena from a reader that holds <hex>, push the slice, push_anchor) | rp:<hex> (register_patch)
//!   | bf:<slot>:<hex> (backfill_or_panic) | cs:<k> (consume) | ab:<k> (advance_slices) | pf (pop_front)
//!   | rd:<k> (Read) | cl (clear) | fl (arena flush_cache) | ec:<n> (ensure_capacity) | ta (take_arena, dropped)
//!   | sa (swap in a fresh arena, old one dropped) | cn:<j> (clone into j) | tk:<j> (take into j) | dr (drop)
//! After every op one block of fields: [op ok(1)/panic(99), return value...], then for every object 0..3
//! (empty fields if absent): [total_size, len, iovs_ok, stable slices], slice lengths, all bytes,
//! anchors (count, chunk#)*, (chunk#, offset) of every slice (chunk 0 = not in an arena chunk), cache [chunk#, cap, bump offset],
//! pending backrefs (logical end, slice index, begin, len)*; then [live chunks, live bytes, every slice in live memory].
use crate::util::*;
use owning_iovec::{Backref, ByteArena, OwningIovec};
use std::io::Read;
use std::num::NonZeroUsize;

const NOBJ: usize = 4;

struct Obj {
    iov: OwningIovec<'static>,
    slots: Vec<Option<Backref>>,
}

pub(crate) struct World {
    objs: Vec<Option<Obj>>,
    base_serial: usize,               // chunks created before this case
    statics: Vec<(usize, usize)>,     // leaked caller buffers
    base_chunks: usize,
    base_bytes: usize,
}

/// [length, sum of (b+1), sum of (i+1)(b+1)]: the digest the run models print for long byte strings.
pub(crate) fn digest3(bytes: &[i128]) -> Vec<i128> {
    let (mut s1, mut s2) = (0i128, 0i128);
    for (i, b) in bytes.iter().enumerate() {
        s1 += b + 1;
        s2 += (i as i128 + 1) * (b + 1);
    }
    vec![bytes.len() as i128, s1, s2]
}

pub(crate) fn leak(b: Vec<u8>) -> &'static [u8] {
    Box::leak(b.into_boxed_slice())
}

impl World {
    // Chunks are numbered by creation order within the case (hook: creation serials), so that a chunk
    // freed and another created at the same address are told apart.
    fn chunk_of(&mut self, addr: usize, len: usize) -> (i128, usize, bool) {
        // which live chunk (if any) contains [addr, addr+len)
        for (s, e, serial) in ByteArena::verif_live_chunks().0 {
            if s <= addr && addr + len <= e {
                return ((serial - self.base_serial) as i128, s, true);
            }
        }
        let in_static = self.statics.iter().any(|(s, e)| *s <= addr && addr + len <= *e);
        (0, 0, in_static)
    }
    fn chunk_id(&mut self, start: usize) -> i128 {
        if start == 0 {
            return 0;
        }
        for (s, _, serial) in ByteArena::verif_live_chunks().0 {
            if s == start {
                return (serial - self.base_serial) as i128;
            }
        }
        -1 // an anchor or a cache refers to a chunk that is not live
    }

    /// The seven fields of one OwningIovec; false if a slice lies outside live memory.
    pub(crate) fn observe_one(&mut self, iov: &OwningIovec<'_>, obs: &mut Obs) -> bool {
        self.observe_one_opt(iov, obs, false)
    }
    /// With `digest` the bytes field is [length, sum of (b+1), sum of (i+1)(b+1)] instead of the bytes themselves.
    pub(crate) fn observe_one_opt(&mut self, iov: &OwningIovec<'_>, obs: &mut Obs, digest: bool) -> bool {
        let mut mem_ok = true;
        let (slices, anchors, cache, backrefs) = iov.verif_view();
        let (total, len, ok, nstable) = (iov.total_size(), iov.len(), iov.iovs().is_ok(), iov.stable_prefix().len());
        obs.push(vec![total as i128, len as i128, ok as i128, nstable as i128]);
        obs.push(slices.iter().map(|s| s.1 as i128).collect());
        let mut bytes = Vec::new();
        let mut cids = Vec::new();
        for (addr, l) in &slices {
            let (cid, start, valid) = self.chunk_of(*addr, *l);
            mem_ok &= valid;
            if valid {
                let s = unsafe { std::slice::from_raw_parts(*addr as *const u8, *l) };
                bytes.extend(s.iter().map(|b| *b as i128));
            }
            cids.push(cid);
            cids.push(if cid == 0 { 0 } else { (*addr - start) as i128 });
        }
        if digest {
            obs.push(digest3(&bytes));
        } else {
            obs.push(bytes);
        }
        let mut a = Vec::new();
        for (count, chunk) in &anchors {
            a.push(*count as i128);
            a.push(self.chunk_id(*chunk));
        }
        obs.push(a);
        obs.push(cids);
        obs.push(match cache {
            None => vec![],
            Some((s, b, e)) => vec![self.chunk_id(s), (e - s) as i128, (b - s) as i128],
        });
        let mut br = Vec::new();
        for (end, idx, begin, l) in backrefs {
            br.extend([end as i128, idx as i128, begin as i128, l as i128]);
        }
        obs.push(br);
        mem_ok
    }
    pub(crate) fn globals(&self, mem_ok: bool) -> Vec<i128> {
        vec![
            (ByteArena::num_live_chunks() - self.base_chunks) as i128,
            (ByteArena::num_live_bytes() - self.base_bytes) as i128,
            mem_ok as i128,
        ]
    }

    fn observe(&mut self, obs: &mut Obs) {
        let mut mem_ok = true;
        for i in 0..NOBJ {
            match self.objs[i].take() {
                None => {
                    for _ in 0..7 {
                        obs.push(vec![]);
                    }
                }
                Some(o) => {
                    mem_ok &= self.observe_one(&o.iov, obs);
                    self.objs[i] = Some(o);
                }
            }
        }
        obs.push(self.globals(mem_ok));
    }
    pub(crate) fn fresh() -> World {
        World {
            objs: (0..NOBJ).map(|_| None).collect(),
            base_serial: ByteArena::verif_live_chunks().1,
            statics: Vec::new(),
            base_chunks: ByteArena::num_live_chunks(),
            base_bytes: ByteArena::num_live_bytes(),
        }
    }
    pub(crate) fn add_static(&mut self, d: &'static [u8]) {
        self.statics.push((d.as_ptr() as usize, d.as_ptr() as usize + d.len()));
    }
}

pub fn run(line: &str) -> Obs {
    let mut w = World::fresh();
    let mut obs: Obs = Vec::new();
    for tok in line.split_whitespace() {
        let (i, op) = tok[1..].split_once(':').unwrap();
        let i: usize = i.parse().unwrap();
        let p: Vec<&str> = op.split(':').collect();
        let r = catch(|| -> Vec<i128> {
            let mut ret: Vec<i128> = vec![1];
            if p[0] == "new" {
                w.objs[i] = Some(Obj { iov: OwningIovec::new(), slots: Vec::new() });
                return ret;
            }
            if p[0] == "dr" {
                w.objs[i] = None;
                return ret;
            }
            if p[0] == "cn" || p[0] == "tk" {
                let j: usize = p[1].parse().unwrap();
                let o = w.objs[i].as_mut().expect("object exists");
                let newobj = if p[0] == "cn" {
                    Obj { iov: o.iov.clone(), slots: Vec::new() }
                } else {
                    Obj { iov: o.iov.take(), slots: std::mem::take(&mut o.slots) }
                };
                w.objs[j] = Some(newobj);
                return ret;
            }
            let mut borrowed: Vec<(usize, usize)> = Vec::new();
            let o = w.objs[i].as_mut().expect("object exists");
            match p[0] {
                "pu" | "pb" => {
                    let d = leak(unhex(p[1]));
                    borrowed.push((d.as_ptr() as usize, d.as_ptr() as usize + d.len()));
                    if p[0] == "pu" {
                        o.iov.push(d)
                    } else {
                        o.iov.push_borrowed(d)
                    }
                }
                "pc" => o.iov.push_copy(&unhex(p[1])),
                "ex" => {
                    // the items are adjacent sub-slices of ONE caller buffer: caller memory is never merged, adjacent or not
                    let parts: Vec<Vec<u8>> = p[1].split(',').map(unhex).collect();
                    let whole: &'static [u8] = leak(parts.concat());
                    borrowed.push((whole.as_ptr() as usize, whole.as_ptr() as usize + whole.len()));
                    let mut items: Vec<&'static [u8]> = Vec::new();
                    let mut at = 0;
                    for q in &parts {
                        items.push(&whole[at..at + q.len()]);
                        at += q.len();
                    }
                    o.iov.extend(items.into_iter().map(std::io::IoSlice::new));
                }
                "an" => {
                    let data = unhex(p[1]);
                    // an:<hex>:<count>: the reader delivers the bytes and then end of file (a short read when count is larger)
                    let count: usize = if p.len() > 2 { p[2].parse().unwrap() } else { data.len() };
                    let s = o.iov.arena().read_n(&data[..], count, NonZeroUsize::MAX).unwrap();
                    assert_eq!(s.slice(), &data[..]);
                    let (_, slice, anchor) = unsafe { s.components() };
                    if !slice.is_empty() {
                        let end = slice.as_ptr() as usize + slice.len();
                        o.iov.push(slice);
                        // did push() borrow the anchored memory (0) or copy it (1)?
                        let last = *o.iov.verif_view().0.last().unwrap();
                        ret.push((last.0 + last.1 != end) as i128);
                    }
                    // as Decoder::decode_anchored / Encoder::encode_anchored do: the input's anchor is queued whatever
                    // the input contributed (possibly nothing)
                    o.iov.push_anchor(anchor);
                }
                "rp" => {
                    let b = o.iov.register_patch(&unhex(p[1]));
                    ret.push(b.len() as i128);
                    o.slots.push(Some(b));
                }
                "bf" => {
                    let k: usize = p[1].parse().unwrap();
                    let b = o.slots[k].take().expect("slot pending");
                    o.iov.backfill_or_panic(b, &unhex(p[2]));
                }
                "cs" => ret.push(o.iov.consumer().consume(p[1].parse().unwrap()) as i128),
                "ab" => ret.push(o.iov.consumer().advance_slices(p[1].parse().unwrap()) as i128),
                "pf" => o.iov.consumer().pop_front(),
                "rd" => {
                    let mut buf = vec![0u8; p[1].parse().unwrap()];
                    let n = o.iov.consumer().read(&mut buf).unwrap();
                    ret.push(n as i128);
                    ret.extend(buf[..n].iter().map(|b| *b as i128));
                }
                "cl" => {
                    o.iov.clear();
                    o.slots.clear();
                }
                "fl" => o.iov.arena().flush_cache(),
                "ec" => o.iov.arena().ensure_capacity(p[1].parse().unwrap()),
                "ta" => drop(o.iov.consumer().take_arena()),
                "sa" => drop(o.iov.consumer().swap_arena(ByteArena::new())),
                _ => panic!("bad op"),
            }
            // read-side agreement: flatten / stable_consumer succeed exactly when iovs does
            let ok = o.iov.iovs().is_ok();
            assert_eq!(o.iov.flatten().is_ok(), ok);
            assert_eq!(o.iov.stable_consumer().is_ok(), ok);
            assert_eq!(o.iov.has_pending_backrefs(), !ok);
            assert_eq!(o.iov.front().map(|s| s.to_vec()), o.iov.stable_prefix().first().map(|s| s.to_vec()));
            assert_eq!((&o.iov).into_iter().count(), o.iov.stable_prefix().len());
            assert_eq!(o.iov.is_empty(), o.iov.len() == 0);
            w.statics.extend(borrowed);
            ret
        });
        match r {
            Ok(ret) => obs.push(ret),
            Err(_) => {
                obs.push(vec![99]);
                return obs;
            }
        }
        w.observe(&mut obs);
    }
    obs
}
