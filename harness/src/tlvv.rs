//! Family `tlvv` (C12): `<hex bytes> { ix:<i> | tg:<t> }*`
//! fields: [code]; if accepted: [len], tags, iter (tag, vlen, bytes)*, then per probe two fields:
//! ix -> get_value, get; tg -> find_tag index, find value.  99 = panic.
use crate::util::*;
use rough_tlv::{DecodingError, MessageView, Tag};

fn enc_val(v: Option<&[u8]>) -> Vec<i128> {
    match v {
        None => vec![0],
        Some(b) => {
            let mut r = vec![1];
            r.extend(bytes_field(b));
            r
        }
    }
}

/// The verdict and every accessor result may depend on the bytes only: the same bytes are presented at the four
/// possible addresses modulo 4 (the header is an array of u32 words); a difference is reported as [96, k].
pub fn run(line: &str) -> Obs {
    let t: Vec<&str> = line.split_whitespace().collect();
    let bytes = unhex(t[0]);
    let mut first: Option<Obs> = None;
    for k in 0..4usize {
        let mut buf = vec![0u8; bytes.len() + 8];
        let base = buf.as_ptr() as usize;
        let off = (k + 4 - base % 4) % 4;
        buf[off..off + bytes.len()].copy_from_slice(&bytes);
        let o = run_at(&buf[off..off + bytes.len()], &t);
        match &first {
            None => first = Some(o),
            Some(f) => {
                if *f != o {
                    return vec![vec![96, k as i128]];
                }
            }
        }
    }
    first.unwrap()
}

fn run_at(data: &[u8], t: &[&str]) -> Obs {
    let mut obs: Obs = Vec::new();
    let view = match catch(|| MessageView::new(data.into())) {
        Err(_) => return vec![vec![99]],
        Ok(Err(e)) => {
            let c = match e {
                DecodingError::ImpossibleHeader(_) => 1,
                DecodingError::TruncatedHeader(_) => 2,
                DecodingError::NonMonotonicOffsets(_) => 3,
                DecodingError::NonMonotonicTags(_) => 4,
                DecodingError::TruncatedPayload(_) => 5,
                _ => 9,
            };
            return vec![vec![c]];
        }
        Ok(Ok(v)) => v,
    };
    obs.push(vec![0]);
    let r = catch(|| {
        let mut o: Obs = Vec::new();
        o.push(vec![view.len() as i128]);
        assert_eq!(view.is_empty(), view.len() == 0);
        assert_eq!(view.inner().as_ref(), data);
        let tags: Vec<Tag> = view.tags().to_vec();
        o.push(tags.iter().map(|t| t.value() as i128).collect());
        assert!(view.tags_match_exactly(tags.iter().copied()));
        let mut it = Vec::new();
        for (tag, v) in view.iter() {
            it.push(tag.value() as i128);
            it.push(v.len() as i128);
            it.extend(bytes_field(v));
        }
        o.push(it);
        o
    });
    match r {
        Err(_) => {
            obs.push(vec![99]);
            return obs;
        }
        Ok(o) => obs.extend(o),
    }
    for p in &t[1..] {
        let (k, v) = p.split_once(':').unwrap();
        let n: u128 = v.parse().unwrap();
        match k {
            "ix" => {
                let i = n.min(usize::MAX as u128) as usize;
                obs.push(catch(|| enc_val(view.get_value(i))).unwrap_or(vec![99]));
                obs.push(
                    catch(|| match view.get(i) {
                        None => vec![0],
                        Some((tag, b)) => {
                            let mut r = vec![1, tag.value() as i128];
                            r.extend(bytes_field(b));
                            r
                        }
                    })
                    .unwrap_or(vec![99]),
                );
            }
            "tg" => {
                let tag = n as u32;
                obs.push(
                    catch(|| match view.find_tag(tag) {
                        None => vec![],
                        Some(j) => vec![j as i128],
                    })
                    .unwrap_or(vec![99]),
                );
                obs.push(catch(|| enc_val(view.find(tag))).unwrap_or(vec![99]));
            }
            _ => panic!("bad probe"),
        }
    }
    obs
}
