//! Family `genc` (C01, C03, C05, C09): the Encoder (with caller-chosen chunk limits, hook ParamEncoder) and its
//! OwningIovec at memory level, against hcobs/GeoEnc.v over iovec/Geo.v.
//!   `<mi> <ms> { e:<hex> (encode, borrowed) | c:<hex> (encode_copy) | r:<hex>:<count> (read_n of count bytes from a
//!   reader that holds <hex> into the encoder's arena, then encode_anchored) | cs:<k> (consume) | rd:<k> (Read) | fin }*`
//! After every op: [ok(1)/panic(99), return value...], the encoder state [max, cur, mid] ([] after fin), the seven fields of
//! the iovec (as family geo), then [live chunks, live bytes, every slice in live memory].
use crate::iovw::{leak, World};
use crate::util::*;
use hcobs::verif_hooks::{prod_params, ParamEncoder};
use hcobs::Encoder;
use owning_iovec::AnchoredSlice;
use owning_iovec::OwningIovec;
use std::io::Read;
use std::num::NonZeroUsize;

/// The real `Encoder` at the production limits, the hook wrapper (same code, caller-chosen limits) otherwise.
enum Enc {
    Real(Encoder<'static>),
    Param(ParamEncoder<'static>),
}
impl Enc {
    fn new(mi: usize, ms: usize) -> Enc {
        if (mi, ms) == prod_params() {
            Enc::Real(Encoder::new())
        } else {
            Enc::Param(ParamEncoder::new(mi, ms))
        }
    }
    fn iovec(&mut self) -> &mut OwningIovec<'static> {
        match self {
            Enc::Real(e) => e.verif_iovec(),
            Enc::Param(e) => e.iovec(),
        }
    }
    fn state(&self) -> (usize, usize, bool) {
        match self {
            Enc::Real(e) => e.verif_state(),
            Enc::Param(e) => e.state(),
        }
    }
    fn encode(&mut self, d: &'static [u8]) {
        match self {
            Enc::Real(e) => e.encode(d),
            Enc::Param(e) => e.encode(d),
        }
    }
    fn encode_copy(&mut self, d: &[u8]) {
        match self {
            Enc::Real(e) => e.encode_copy(d),
            Enc::Param(e) => e.encode_copy(d),
        }
    }
    fn encode_anchored(&mut self, s: AnchoredSlice) {
        match self {
            Enc::Real(e) => e.encode_anchored(s),
            Enc::Param(e) => e.encode_anchored(s),
        }
    }
    fn finish(self) -> OwningIovec<'static> {
        match self {
            Enc::Real(e) => e.finish(),
            Enc::Param(e) => e.finish(),
        }
    }
}

pub fn run(line: &str) -> Obs {
    let t: Vec<&str> = line.split_whitespace().collect();
    let mi: usize = t[0].parse().unwrap();
    let ms: usize = t[1].parse().unwrap();
    let mut w = World::fresh();
    let mut obs: Obs = Vec::new();
    let mut enc: Option<Enc> = None;
    let mut done: Option<OwningIovec<'static>> = None;
    // construction is the first observed step
    match catch(|| Enc::new(mi, ms)) {
        Ok(e) => {
            enc = Some(e);
            obs.push(vec![1]);
        }
        Err(_) => return vec![vec![99]],
    }
    let mut first = true;
    let mut toks: Vec<&str> = vec!["new"];
    toks.extend(&t[2..]);
    for tok in toks {
        if !first {
            let p: Vec<&str> = tok.split(':').collect();
            let r = catch(|| -> Vec<i128> {
                let mut ret: Vec<i128> = vec![1];
                if p[0] == "fin" {
                    done = Some(enc.take().expect("encoder in use").finish());
                    return ret;
                }
                if p[0] == "cs" || p[0] == "rd" {
                    let iov: &mut OwningIovec<'static> = match enc.as_mut() {
                        Some(e) => e.iovec(),
                        None => done.as_mut().expect("finished iovec"),
                    };
                    if p[0] == "cs" {
                        ret.push(iov.consumer().consume(p[1].parse().unwrap()) as i128);
                    } else {
                        let mut buf = vec![0u8; p[1].parse().unwrap()];
                        let n = iov.consumer().read(&mut buf).unwrap();
                        let bytes: Vec<i128> = buf[..n].iter().map(|b| *b as i128).collect();
                        ret.extend(crate::iovw::digest3(&bytes));
                    }
                    return ret;
                }
                let e = enc.as_mut().expect("encoder in use");
                match p[0] {
                    "e" => {
                        let d = leak(unhex(p[1]));
                        w.add_static(d);
                        e.encode(d);
                    }
                    "c" => e.encode_copy(&unhex(p[1])),
                    "r" => {
                        let data = unhex(p[1]);
                        let count: usize = p[2].parse().unwrap();
                        let s = e.iovec().arena().read_n(&data[..], count, NonZeroUsize::MAX).unwrap();
                        ret.push(s.slice().len() as i128);
                        e.encode_anchored(s);
                    }
                    _ => panic!("bad op"),
                }
                ret
            });
            match r {
                Ok(ret) => obs.push(ret),
                Err(_) => {
                    obs.push(vec![99]);
                    return obs;
                }
            }
        }
        first = false;
        let mem_ok = match enc.as_mut() {
            Some(e) => {
                let (mx, cur, mid) = e.state();
                obs.push(vec![mx as i128, cur as i128, mid as i128]);
                w.observe_one_opt(e.iovec(), &mut obs, true)
            }
            None => {
                obs.push(vec![]);
                match done.as_ref() {
                    Some(iov) => w.observe_one_opt(iov, &mut obs, true),
                    None => true,
                }
            }
        };
        obs.push(w.globals(mem_ok));
    }
    obs
}
