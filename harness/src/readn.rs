//! Family `readn` (C17): `<via> <arena> <count> <max> <stream-hex> { D<k> | I | E | F }*`
//!   via   : arena | enc | dec | encread | decread
//!   arena : none | fresh | tight (2 bytes left in the current chunk)
//! fields: [0,got] | [1,kind]; bytes returned; request size of every reader call; [events consumed];
//!         [frame flags: earlier slice intact, remaining() accounting, codec state as if encode/decode
//!          of the delivered bytes (success) or untouched (failure)]
use crate::util::*;
use std::io::Read;
use std::num::NonZeroUsize;

pub struct Scripted<'a> {
    pub events: Vec<&'a str>,
    pub pos: usize,
    pub stream: &'a [u8],
    pub off: usize,
    pub calls: Vec<usize>,
}

impl<'a> Read for Scripted<'a> {
    fn read(&mut self, dst: &mut [u8]) -> std::io::Result<usize> {
        self.calls.push(dst.len());
        let ev = if self.pos < self.events.len() { self.events[self.pos] } else { "E" };
        self.pos += 1;
        match ev.as_bytes()[0] {
            b'D' => {
                let k: usize = ev[1..].parse().unwrap();
                let n = k.min(dst.len()).min(self.stream.len() - self.off);
                dst[..n].copy_from_slice(&self.stream[self.off..self.off + n]);
                self.off += n;
                Ok(n)
            }
            b'I' => Err(std::io::Error::from(std::io::ErrorKind::Interrupted)),
            b'E' => Ok(0),
            _ => Err(std::io::Error::new(std::io::ErrorKind::PermissionDenied, "scripted failure")),
        }
    }
}

fn kind(e: &std::io::Error) -> i128 {
    if e.kind() == std::io::ErrorKind::Interrupted {
        1
    } else {
        2
    }
}

fn prep(arena: &mut owning_iovec::ByteArena, state: &str, count: usize) {
    match state {
        "none" => {}
        "fresh" => arena.ensure_capacity(1),
        "tight" => {
            arena.ensure_capacity(count.max(8));
            let rem = arena.remaining();
            if rem > 2 {
                let filler = vec![0xAAu8; rem - 2];
                let s = arena.read_n(&filler[..], rem - 2, NonZeroUsize::MAX).unwrap();
                assert_eq!(s.slice().len(), rem - 2);
                assert_eq!(arena.remaining(), 2);
            }
        }
        _ => panic!("bad arena state"),
    }
}

pub fn run(line: &str) -> Obs {
    let t: Vec<&str> = line.split_whitespace().collect();
    let (via, state) = (t[0], t[1]);
    let count: usize = t[2].parse().unwrap();
    let max = NonZeroUsize::new(t[3].parse::<u128>().unwrap().min(usize::MAX as u128) as usize).unwrap();
    let stream = unhex(t[4]);
    let events: Vec<&str> = t[5..].to_vec();
    let r = catch(|| {
        let mut rd = Scripted { events: events.clone(), pos: 0, stream: &stream, off: 0, calls: vec![] };
        let mut flags: Vec<i128> = Vec::new();
        let (res, bytes): (Vec<i128>, Vec<i128>) = match via {
            "arena" => {
                let mut arena = owning_iovec::ByteArena::new();
                prep(&mut arena, state, count);
                // an earlier allocation that must stay intact
                let earlier = arena.read_n(&b"\x11\x22\x33"[..], 3, NonZeroUsize::MAX).unwrap();
                let before = arena.remaining();
                let r = arena.read_n(&mut rd, count, max);
                let after = arena.remaining();
                flags.push((earlier.slice() == b"\x11\x22\x33") as i128);
                match r {
                    Ok(s) => {
                        let got = s.slice().len();
                        if count <= before {
                            flags.push((after == before - got) as i128);
                        } else {
                            flags.push(1);
                        }
                        // a later allocation does not disturb the returned slice
                        let copy = s.slice().to_vec();
                        let later = arena.read_n(&b"\x55\x66"[..], 2, NonZeroUsize::MAX).unwrap();
                        flags.push((s.slice() == &copy[..] && later.slice() == b"\x55\x66") as i128);
                        (vec![0, got as i128], bytes_field(s.slice()))
                    }
                    Err(e) => {
                        flags.push(if count <= before { (after == before) as i128 } else { 1 });
                        flags.push(1);
                        (vec![1, kind(&e)], vec![])
                    }
                }
            }
            "enc" | "encread" => {
                let mut enc = hcobs::Encoder::new();
                prep(enc.consumer().arena(), state, count);
                enc.encode_copy(b"AB\xfe");
                let mut reference = hcobs::Encoder::new();
                reference.encode_copy(b"AB\xfe");
                let (res, bytes) = if via == "enc" {
                    match enc.read_n(&mut rd, count, max) {
                        Ok(s) => {
                            let b = s.slice().to_vec();
                            enc.encode_anchored(s);
                            (vec![0, b.len() as i128], b)
                        }
                        Err(e) => (vec![1, kind(&e)], vec![]),
                    }
                } else {
                    match enc.encode_read(&mut rd, count, max) {
                        Ok(n) => (vec![0, n as i128], stream[..n].to_vec()),
                        Err(e) => (vec![1, kind(&e)], vec![]),
                    }
                };
                reference.encode_copy(&bytes);
                enc.encode_copy(b"\xfdZ");
                reference.encode_copy(b"\xfdZ");
                let a = enc.finish().flatten().unwrap();
                let b = reference.finish().flatten().unwrap();
                flags.push(1);
                flags.push(1);
                flags.push((a == b) as i128);
                (res, bytes_field(&bytes))
            }
            "dec" | "decread" => {
                let mut dec = hcobs::Decoder::new();
                prep(dec.consumer().arena(), state, count);
                let mut reference = hcobs::Decoder::new();
                let (res, bytes, derr) = if via == "dec" {
                    match dec.read_n(&mut rd, count, max) {
                        Ok(s) => {
                            let b = s.slice().to_vec();
                            let d = dec.decode_anchored(s).is_err();
                            (vec![0, b.len() as i128], b, d)
                        }
                        Err(e) => (vec![1, kind(&e)], vec![], false),
                    }
                } else {
                    let consumed_before = rd.off;
                    match dec.decode_read(&mut rd, count, max) {
                        Ok(n) => (vec![0, n as i128], stream[..n].to_vec(), false),
                        Err(e) => {
                            // either the read failed (nothing delivered) or decoding did
                            let delivered = stream[consumed_before..rd.off].to_vec();
                            if delivered.is_empty() {
                                (vec![1, kind(&e)], vec![], false)
                            } else {
                                (vec![0, delivered.len() as i128], delivered, true)
                            }
                        }
                    }
                };
                let rerr = reference.decode_copy(&bytes).is_err();
                flags.push(1);
                flags.push(1);
                let same = if derr || rerr {
                    derr == rerr
                } else {
                    // feed the rest of the stream to both and compare the outcome
                    let rest = stream[rd.off..].to_vec();
                    let x = dec.decode_copy(&rest).is_err();
                    let y = reference.decode_copy(&rest).is_err();
                    if x || y {
                        x == y
                    } else {
                        match (dec.finish(), reference.finish()) {
                            (Ok(a), Ok(b)) => a.flatten().unwrap() == b.flatten().unwrap(),
                            (Err(_), Err(_)) => true,
                            _ => false,
                        }
                    }
                };
                flags.push(same as i128);
                (res, bytes_field(&bytes))
            }
            _ => panic!("bad via"),
        };
        vec![res, bytes, rd.calls.iter().map(|x| *x as i128).collect(), vec![rd.pos as i128], flags]
    });
    r.unwrap_or(vec![vec![99]])
}

/// Family `hint` (C10): `<len> <prev_capacity>` -> [hint] (99 = panic)
pub fn run_hint(line: &str) -> Obs {
    let t: Vec<&str> = line.split_whitespace().collect();
    let len: usize = t[0].parse::<u128>().unwrap().min(usize::MAX as u128) as usize;
    let prev: usize = t[1].parse::<u128>().unwrap().min(usize::MAX as u128) as usize;
    match catch(|| owning_iovec::ByteArena::verif_find_hint_size(len, prev)) {
        Ok(h) => vec![vec![h as i128]],
        Err(_) => vec![vec![99]],
    }
}
