//! Families `chunk` (C08) and `reader` (C06).
//!   chunk : `<bs> <arena: none|used|rem<k>> <hex stream> { s:<k> | i }*`   (rem<k>: k bytes of room left in the arena's chunk)
//!   reader: `<bs|-> <max|-> <limit|-> <hex stream> { s:<k> | i }*`
//! The schedule applies to successive reader calls (s:k = deliver at most k bytes, i = Interrupted);
//! once it is exhausted, reads are served in full.
//! chunk fields : one per chunk: [0, end offset, data bytes...] | [1, end offset] | [2]
//! reader fields: one per record: [start, end, decoded bytes...]; then [stream stays ended, last_sentinel_offset]
use crate::util::*;
use hcobs::{Chunk, StreamChunker, StreamReader};
use std::io::Read;

pub(crate) struct Sched<'a> {
    stream: &'a [u8],
    off: usize,
    sched: Vec<&'a str>,
    pos: usize,
}
impl<'a> Sched<'a> {
    pub(crate) fn new(stream: &'a [u8], sched: Vec<&'a str>) -> Self {
        Sched { stream, off: 0, sched, pos: 0 }
    }
}
impl<'a> Read for Sched<'a> {
    fn read(&mut self, dst: &mut [u8]) -> std::io::Result<usize> {
        let d = if self.pos < self.sched.len() { self.sched[self.pos] } else { "f" };
        self.pos += 1;
        if d == "i" {
            return Err(std::io::Error::from(std::io::ErrorKind::Interrupted));
        }
        let cap = if let Some(k) = d.strip_prefix("s:") { k.parse::<usize>().unwrap().max(1) } else { usize::MAX };
        let n = cap.min(dst.len()).min(self.stream.len() - self.off);
        dst[..n].copy_from_slice(&self.stream[self.off..self.off + n]);
        self.off += n;
        Ok(n)
    }
}

pub fn run_chunk(line: &str) -> Obs {
    let t: Vec<&str> = line.split_whitespace().collect();
    let bs: usize = t[0].parse().unwrap();
    let stream = unhex(t[2]);
    let r = catch(|| {
        let mut arena = owning_iovec::ByteArena::new();
        if t[1] == "used" {
            let _ = arena.read_n(&b"xyz"[..], 3, std::num::NonZeroUsize::MAX).unwrap();
        } else if let Some(k) = t[1].strip_prefix("rem") {
            // leave exactly k bytes of room in the arena's current chunk
            let k: usize = k.parse().unwrap();
            let _ = arena.read_n(&b"xyz"[..], 3, std::num::NonZeroUsize::MAX).unwrap();
            let r = arena.remaining();
            if r > k {
                let _ = arena.read_n(std::io::repeat(7), r - k, std::num::NonZeroUsize::MAX).unwrap();
            }
            assert_eq!(arena.remaining(), k.min(r));
        }
        let mut rd = Sched { stream: &stream, off: 0, sched: t[3..].to_vec(), pos: 0 };
        let mut ch = StreamChunker::default();
        let mut obs: Obs = Vec::new();
        let mut kept = Vec::new(); // keep the slices alive and check them again at the end
        for _ in 0..(stream.len() + 3) {
            match ch.pump(&mut arena, &mut rd, bs).expect("no hard error in the schedule") {
                Chunk::Eof => {
                    obs.push(vec![2]);
                    break;
                }
                Chunk::Sentinel(o) => obs.push(vec![1, o as i128]),
                Chunk::Data((o, s)) => {
                    let mut f = vec![0, o as i128];
                    f.extend(bytes_field(s.slice()));
                    obs.push(f);
                    kept.push((s.slice().to_vec(), s));
                }
            }
        }
        // Eof is sticky
        if !matches!(ch.pump(&mut arena, &mut rd, bs).unwrap(), Chunk::Eof) {
            obs.push(vec![98]);
        }
        for (copy, s) in &kept {
            if s.slice() != &copy[..] {
                obs.push(vec![97]);
            }
        }
        obs
    });
    r.unwrap_or(vec![vec![99]])
}

/// Family `gchk` (C05, C08): the same input as `chunk`, observed at memory level against hcobs/GeoChunker.v.
/// Per pump two fields: the chunk [0, end offset, chunk#, offset in chunk, len, anchor chunk#, bytes...] | [1, end] | [2],
/// then the arena's cache [chunk#, cap, bump] or []. At the end (after one more pump, which must say Eof):
/// [live chunks, live bytes, every Data slice still inside the chunk its own anchor holds and unchanged].
pub fn run_gchunk(line: &str) -> Obs {
    use owning_iovec::ByteArena;
    let t: Vec<&str> = line.split_whitespace().collect();
    let bs: usize = t[0].parse().unwrap();
    let stream = unhex(t[2]);
    let base_chunks = ByteArena::num_live_chunks();
    let base_bytes = ByteArena::num_live_bytes();
    let base_serial = ByteArena::verif_live_chunks().1;
    let serial_of = |start: usize| -> (i128, usize, usize) {
        for (s, e, serial) in ByteArena::verif_live_chunks().0 {
            if s == start {
                return ((serial - base_serial) as i128, s, e);
            }
        }
        (-1, 0, 0)
    };
    let r = catch(|| {
        let mut arena = ByteArena::new();
        if t[1] == "used" {
            let _ = arena.read_n(&b"xyz"[..], 3, std::num::NonZeroUsize::MAX).unwrap();
        } else if let Some(k) = t[1].strip_prefix("rem") {
            let k: usize = k.parse().unwrap();
            let _ = arena.read_n(&b"xyz"[..], 3, std::num::NonZeroUsize::MAX).unwrap();
            let r = arena.remaining();
            if r > k {
                let _ = arena.read_n(std::io::repeat(7), r - k, std::num::NonZeroUsize::MAX).unwrap();
            }
        }
        let mut rd = Sched { stream: &stream, off: 0, sched: t[3..].to_vec(), pos: 0 };
        let mut ch = StreamChunker::default();
        let mut obs: Obs = Vec::new();
        let mut kept = Vec::new();
        let cache_field = |arena: &ByteArena| -> Vec<i128> {
            match arena.verif_cache() {
                None => vec![],
                Some((s, b, e)) => vec![serial_of(s).0, (e - s) as i128, (b - s) as i128],
            }
        };
        for _ in 0..(stream.len() + 3) {
            match ch.pump(&mut arena, &mut rd, bs).expect("no hard error in the schedule") {
                Chunk::Eof => {
                    obs.push(vec![2]);
                    obs.push(cache_field(&arena));
                    break;
                }
                Chunk::Sentinel(o) => obs.push(vec![1, o as i128]),
                Chunk::Data((o, s)) => {
                    let sl = s.slice();
                    let (addr, len) = (sl.as_ptr() as usize, sl.len());
                    let (aserial, start, end) = serial_of(s.verif_chunk());
                    let mut f: Vec<i128> = if s.verif_chunk() != 0 && aserial > 0 && start <= addr && addr + len <= end {
                        vec![0, o as i128, aserial, (addr - start) as i128, len as i128, aserial]
                    } else {
                        vec![0, o as i128, 0, 0, len as i128, if s.verif_chunk() == 0 { 0 } else { aserial }]
                    };
                    f.extend(bytes_field(sl));
                    obs.push(f);
                    kept.push((s.slice().to_vec(), addr, s));
                }
            }
            if obs.last().map(|f| f[0] != 2).unwrap_or(false) {
                obs.push(cache_field(&arena));
            }
        }
        if !matches!(ch.pump(&mut arena, &mut rd, bs).unwrap(), Chunk::Eof) {
            obs.push(vec![98]);
        }
        let mut ok = true;
        for (copy, addr, s) in &kept {
            let (aserial, start, end) = serial_of(s.verif_chunk());
            ok &= s.slice() == &copy[..] && s.slice().as_ptr() as usize == *addr;
            ok &= aserial > 0 && start <= *addr && *addr + copy.len() <= end;
        }
        obs.push(cache_field(&arena));
        obs.push(vec![
            (ByteArena::num_live_chunks() - base_chunks) as i128,
            (ByteArena::num_live_bytes() - base_bytes) as i128,
            ok as i128,
        ]);
        obs
    });
    r.unwrap_or(vec![vec![99]])
}

/// Family `grdr` (C05, C06): the input of `reader`, observed at memory level against hcobs/GeoReader.v.
/// Per returned record: [1, range start, range end], the seven iovec fields of family geo for the iovec handed out,
/// [live chunks, live bytes, every slice in live memory]; at the end [stream stays ended, last_sentinel_offset] and
/// [live chunks, live bytes].
pub fn run_grdr(line: &str) -> Obs {
    use crate::iovw::World;
    let t: Vec<&str> = line.split_whitespace().collect();
    let bs: Option<usize> = if t[0] == "-" { None } else { Some(t[0].parse().unwrap()) };
    let max: usize = if t[1] == "-" { usize::MAX } else { t[1].parse().unwrap() };
    let limit: Option<u64> = if t[2] == "-" { None } else { Some(t[2].parse().unwrap()) };
    let stream = unhex(t[3]);
    let mut w = World::fresh();
    let r = catch(|| {
        let mut rd = Sched { stream: &stream, off: 0, sched: t[4..].to_vec(), pos: 0 };
        let judge = StreamReader::chunk_judge(max, limit);
        let mut reader = StreamReader::new();
        let mut obs: Obs = Vec::new();
        for _ in 0..(stream.len() + 3) {
            match reader.next_record_bytes(&mut rd, &judge, bs).expect("no hard error") {
                None => break,
                Some((iov, range)) => {
                    obs.push(vec![1, range.start as i128, range.end as i128]);
                    let ok = w.observe_one_opt(iov, &mut obs, true);
                    obs.push(w.globals(ok));
                }
            }
        }
        let mut ended = true;
        for _ in 0..2 {
            ended &= reader.next_record_bytes(&mut rd, &judge, bs).expect("no hard error").is_none();
        }
        obs.push(vec![ended as i128, reader.last_sentinel_offset() as i128]);
        obs.push(w.globals(true)[..2].to_vec());
        obs
    });
    r.unwrap_or(vec![vec![99]])
}

pub fn run_reader(line: &str) -> Obs {
    let t: Vec<&str> = line.split_whitespace().collect();
    let bs: Option<usize> = if t[0] == "-" { None } else { Some(t[0].parse().unwrap()) };
    let max: usize = if t[1] == "-" { usize::MAX } else { t[1].parse().unwrap() };
    let limit: Option<u64> = if t[2] == "-" { None } else { Some(t[2].parse().unwrap()) };
    let stream = unhex(t[3]);
    let r = catch(|| {
        let mut rd = Sched { stream: &stream, off: 0, sched: t[4..].to_vec(), pos: 0 };
        let judge = StreamReader::chunk_judge(max, limit);
        let mut reader = StreamReader::new();
        let mut obs: Obs = Vec::new();
        for _ in 0..(stream.len() + 3) {
            match reader.next_record_bytes(&mut rd, &judge, bs).expect("no hard error") {
                None => break,
                Some((iov, range)) => {
                    let mut f = vec![range.start as i128, range.end as i128];
                    f.extend(bytes_field(&iov.flatten().expect("record has no placeholder")));
                    obs.push(f);
                }
            }
        }
        let mut ended = true;
        for _ in 0..2 {
            ended &= reader.next_record_bytes(&mut rd, &judge, bs).expect("no hard error").is_none();
        }
        obs.push(vec![ended as i128, reader.last_sentinel_offset() as i128]);
        obs
    });
    r.unwrap_or(vec![vec![99]])
}
