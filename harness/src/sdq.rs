//! Family `sdq` (C15): `<vec|small> <new|from:a,b,c> { pb:<v> | pf | pk | ad:<n> | cl | sl | wr:<i>:<v> | fr | bk }*`
//! Per operation three fields: result, view, (consumed_prefix, container len); `[99]` on panic.
use crate::util::*;
use sliding_deque::traits::PushTruncateContainer;
use sliding_deque::SlidingDeque;
use smallvec::SmallVec;

fn opt(o: Option<i64>) -> Vec<i128> {
    match o {
        None => vec![0],
        Some(x) => vec![1, x as i128],
    }
}

fn drive<C>(init: C, ops: &[&str]) -> Obs
where
    C: PushTruncateContainer<Item = i64> + Clone + Default,
{
    let mut obs: Obs = Vec::new();
    let mut d: SlidingDeque<C> = SlidingDeque::from(init);
    for op in ops {
        let r = catch(|| {
            let p: Vec<&str> = op.split(':').collect();
            let ret: Vec<i128> = match p[0] {
                "pb" => {
                    d.push_back(p[1].parse().unwrap());
                    vec![]
                }
                "pf" => opt(d.pop_front()),
                "pk" => opt(d.pop_back()),
                "ad" => vec![d.advance(p[1].parse::<u128>().unwrap().min(usize::MAX as u128) as usize) as i128],
                "cl" => {
                    d.clear();
                    vec![]
                }
                "sl" => {
                    d.slide();
                    vec![]
                }
                "wr" => {
                    let i: usize = p[1].parse().unwrap();
                    let v: i64 = p[2].parse().unwrap();
                    // alternate between the three mutable views the property names
                    let n = d.len();
                    if i < n {
                        if i == 0 && v % 2 == 0 {
                            *d.front_mut().unwrap() = v;
                        } else if i + 1 == n && v % 2 == 0 {
                            *d.back_mut().unwrap() = v;
                        } else {
                            d[i] = v;
                        }
                        vec![1]
                    } else {
                        assert!(d.get_mut(i).is_none());
                        vec![0]
                    }
                }
                "fr" => opt(d.front().copied()),
                "bk" => opt(d.back().copied()),
                _ => panic!("bad op"),
            };
            ret
        });
        match r {
            Err(_) => {
                obs.push(vec![99]);
                return obs;
            }
            Ok(ret) => {
                obs.push(ret);
                obs.push(d.iter().map(|x| *x as i128).collect());
                #[cfg(woodpile_verif)]
                {
                    let (c, l) = d.verif_rep();
                    obs.push(vec![c as i128, l as i128]);
                }
                #[cfg(not(woodpile_verif))]
                obs.push(vec![]);
            }
        }
    }
    obs
}

pub fn run(line: &str) -> Obs {
    let t: Vec<&str> = line.split_whitespace().collect();
    let init: Vec<i64> = match t[1].strip_prefix("from:") {
        Some(s) if !s.is_empty() => s.split(',').map(|x| x.parse().unwrap()).collect(),
        _ => vec![],
    };
    match t[0] {
        "vec" => drive::<Vec<i64>>(init, &t[2..]),
        "small" => drive::<SmallVec<[i64; 4]>>(SmallVec::from_vec(init), &t[2..]),
        _ => panic!("bad backing"),
    }
}
