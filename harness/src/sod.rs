//! Family `sod` (C16): `<pair|item> <vec|small> { pu:<k>:<v|x> | fi:<k> | rm:<k> | pf | pl | cl | it | fr | la | ie }*`
//! Per operation two fields: result; lookups of every key 0..=8 (-1 = absent). `[99]` on panic.
use crate::util::*;
use sliding_deque::traits::{PushTruncateContainer, SortedDequeItem};
use sliding_deque::SortedDeque;
use smallvec::SmallVec;

/// Whole-item convention: the order ignores the value and the erased flag (DESIGN.md O4).
#[derive(Clone, Copy, Debug)]
pub struct WItem {
    key: u32,
    val: u32,
    erased: bool,
}
impl PartialEq for WItem {
    fn eq(&self, o: &Self) -> bool {
        self.key == o.key
    }
}
impl Eq for WItem {}
impl PartialOrd for WItem {
    fn partial_cmp(&self, o: &Self) -> Option<std::cmp::Ordering> {
        Some(self.cmp(o))
    }
}
impl Ord for WItem {
    fn cmp(&self, o: &Self) -> std::cmp::Ordering {
        self.key.cmp(&o.key)
    }
}
impl SortedDequeItem for WItem {
    fn mark_erased(&mut self) {
        self.erased = true;
    }
    fn is_erased(&self) -> bool {
        self.erased
    }
}

trait Conv: Copy {
    type Key;
    fn mk(k: u32, v: Option<u32>) -> Self;
    fn key(k: u32) -> Self::Key;
    fn enc(&self) -> (u32, Option<u32>);
}
impl Conv for (u32, Option<u32>) {
    type Key = u32;
    fn mk(k: u32, v: Option<u32>) -> Self {
        (k, v)
    }
    fn key(k: u32) -> u32 {
        k
    }
    fn enc(&self) -> (u32, Option<u32>) {
        *self
    }
}
impl Conv for WItem {
    type Key = WItem;
    fn mk(k: u32, v: Option<u32>) -> Self {
        WItem { key: k, val: v.unwrap_or(0), erased: v.is_none() }
    }
    fn key(k: u32) -> WItem {
        WItem { key: k, val: 0, erased: false }
    }
    fn enc(&self) -> (u32, Option<u32>) {
        (self.key, if self.erased { None } else { Some(self.val) })
    }
}

fn enc_opt<T: Conv>(o: Option<&T>) -> Vec<i128> {
    match o.map(|x| x.enc()) {
        None => vec![0],
        Some((k, Some(v))) => vec![1, k as i128, v as i128],
        Some((k, None)) => vec![2, k as i128],
    }
}

macro_rules! drive {
    ($T:ty, $C:ty, $ops:expr) => {{
        let mut obs: Obs = Vec::new();
        let mut d: SortedDeque<$C> = Default::default();
        for op in $ops {
            let r = catch(|| {
                let p: Vec<&str> = op.split(':').collect();
                let ret: Vec<i128> = match p[0] {
                    "pu" => {
                        let k: u32 = p[1].parse().unwrap();
                        let v = if p[2] == "x" { None } else { Some(p[2].parse::<u32>().unwrap()) };
                        d.push_back_or_panic(<$T as Conv>::mk(k, v));
                        vec![]
                    }
                    "fi" => enc_opt::<$T>(d.find(&<$T as Conv>::key(p[1].parse().unwrap()))),
                    "rm" => enc_opt::<$T>(d.remove(&<$T as Conv>::key(p[1].parse().unwrap())).as_ref()),
                    "pf" => enc_opt::<$T>(d.pop_first().as_ref()),
                    "pl" => enc_opt::<$T>(d.pop_last().as_ref()),
                    "cl" => {
                        d.clear();
                        vec![]
                    }
                    "it" => {
                        let mut v = Vec::new();
                        for it in d.iter() {
                            let (k, val) = it.enc();
                            v.push(k as i128);
                            v.push(val.map(|x| x as i128).unwrap_or(-1));
                        }
                        v
                    }
                    "fr" => enc_opt::<$T>(d.first()),
                    "la" => enc_opt::<$T>(d.last()),
                    "ie" => vec![d.is_empty() as i128],
                    _ => panic!("bad op"),
                };
                ret
            });
            match r {
                Err(_) => {
                    obs.push(vec![99]);
                    break;
                }
                Ok(ret) => {
                    obs.push(ret);
                    let look = catch(|| {
                        (0..=8u32)
                            .map(|k| match d.find(&<$T as Conv>::key(k)).map(|x| x.enc()) {
                                Some((_, Some(v))) => v as i128,
                                _ => -1,
                            })
                            .collect::<Vec<i128>>()
                    });
                    obs.push(look.unwrap_or(vec![-99]));
                }
            }
        }
        obs
    }};
}

pub fn run(line: &str) -> Obs {
    let t: Vec<&str> = line.split_whitespace().collect();
    let ops = &t[2..];
    match (t[0], t[1]) {
        ("pair", "vec") => drive!((u32, Option<u32>), Vec<(u32, Option<u32>)>, ops),
        ("pair", "small") => drive!((u32, Option<u32>), SmallVec<[(u32, Option<u32>); 4]>, ops),
        ("item", "vec") => drive!(WItem, Vec<WItem>, ops),
        ("item", "small") => drive!(WItem, SmallVec<[WItem; 4]>, ops),
        _ => panic!("bad convention"),
    }
}

#[allow(dead_code)]
fn _unused<C: PushTruncateContainer>() {}
