//! Correspondence harness: runs the real woodpile crates on case files and prints one JSON
//! observation (a list of fields, each a list of numbers) per case.  See DESIGN.md section 4.2.
mod util;
mod hcobs_fam;
mod hmem;
mod asl;
mod genc;
mod gdec;
mod iovw;
mod nfs;
mod readn;
mod sdq;
mod seqlock;
mod sod;
mod stream;
mod tlvv;
mod tlvw;
mod win;

use std::io::{BufRead, Write};

fn main() {
    let args: Vec<String> = std::env::args().collect();
    if args.len() < 3 {
        eprintln!("usage: wp_harness <family> <casefile> [outfile]");
        std::process::exit(2);
    }
    let family = args[1].as_str();
    let file = std::fs::File::open(&args[2]).expect("case file");
    let out: Box<dyn Write> = if args.len() > 3 {
        Box::new(std::io::BufWriter::new(std::fs::File::create(&args[3]).expect("out file")))
    } else {
        Box::new(std::io::BufWriter::new(std::io::stdout()))
    };
    let mut out = out;
    // silence panic messages: panics are caught and reported as an observation
    std::panic::set_hook(Box::new(|_| {}));
    for line in std::io::BufReader::new(file).lines() {
        let line = line.expect("read");
        let line = line.trim();
        if line.is_empty() || line.starts_with('#') {
            continue;
        }
        let obs: util::Obs = match family {
            "win" => win::run(line),
            "iovw" | "geo" => iovw::run(line),
            "asl" => asl::run(line),
            "genc" => genc::run(line),
            "gdec" => gdec::run(line),
            "nfs" => nfs::run(line),
            "chunk" => stream::run_chunk(line),
            "gchk" => stream::run_gchunk(line),
            "grdr" => stream::run_grdr(line),
            "reader" => stream::run_reader(line),
            "hcobs" => hcobs_fam::run(line),
            "hmem" => hmem::run_hmem(line),
            "smem" => hmem::run_smem(line),
            "readn" => readn::run(line),
            "hint" => readn::run_hint(line),
            "sdq" => sdq::run(line),
            "seq" => seqlock::run(line),
            "sod" => sod::run(line),
            "tlvv" => tlvv::run(line),
            "tlvw" => tlvw::run(line),
            _ => {
                eprintln!("unknown family {family}");
                std::process::exit(2);
            }
        };
        writeln!(out, "{}", util::to_json(&obs)).unwrap();
    }
    out.flush().unwrap();
}
