//! Shared helpers: observation type, JSON printing, hex parsing, panic classification.
#![allow(dead_code)]

/// One observation = list of fields; a field = list of integers (i128 covers u64 and nanos).
pub type Obs = Vec<Vec<i128>>;

pub fn to_json(o: &Obs) -> String {
    let mut s = String::from("[");
    for (i, f) in o.iter().enumerate() {
        if i > 0 {
            s.push(',');
        }
        s.push('[');
        for (j, v) in f.iter().enumerate() {
            if j > 0 {
                s.push(',');
            }
            s.push_str(&v.to_string());
        }
        s.push(']');
    }
    s.push(']');
    s
}

pub fn unhex(s: &str) -> Vec<u8> {
    if s == "-" {
        return Vec::new();
    }
    let b = s.as_bytes();
    assert!(b.len() % 2 == 0, "odd hex");
    let v = |c: u8| -> u8 {
        match c {
            b'0'..=b'9' => c - b'0',
            b'a'..=b'f' => c - b'a' + 10,
            b'A'..=b'F' => c - b'A' + 10,
            _ => panic!("bad hex"),
        }
    };
    b.chunks(2).map(|p| v(p[0]) * 16 + v(p[1])).collect()
}

pub fn bytes_field(b: &[u8]) -> Vec<i128> {
    b.iter().map(|x| *x as i128).collect()
}

/// Run f, mapping a panic to None together with its message.
pub fn catch<T>(f: impl FnOnce() -> T) -> Result<T, String> {
    match std::panic::catch_unwind(std::panic::AssertUnwindSafe(f)) {
        Ok(v) => Ok(v),
        Err(e) => {
            let msg = if let Some(s) = e.downcast_ref::<&str>() {
                s.to_string()
            } else if let Some(s) = e.downcast_ref::<String>() {
                s.clone()
            } else {
                "?".to_string()
            };
            Err(msg)
        }
    }
}
