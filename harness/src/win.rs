//! Family `win` (C14): `<nanos> <base> <ok|other:<t>|params2>` -> [[code],[reported_nanos or -]]
//! code: 0 Ok, 1 bad voucher, 2 before epoch, 3 out of range, 4 too far ahead, 5 too far behind,
//! 9 other error text, 99 panic, 98 the nanos value is not a representable PrimitiveDateTime.
use crate::util::*;
use vouched_time::VouchedTime;

const VOUCH: raffle::VouchingParameters = raffle::VouchingParameters::parse_or_die(
    "VOUCH-773ec2a0e62c20cd-f9e079b78e895091-fc1da7b1b77c57cb-594b9cce3091464a",
);

fn params2() -> raffle::VouchingParameters {
    let mut x = 0x9e3779b97f4a7c15u64;
    raffle::VouchingParameters::generate::<()>(|| {
        x = x.wrapping_mul(6364136223846793005).wrapping_add(1442695040888963407);
        Ok(x ^ (x >> 29))
    })
    .unwrap()
}

fn classify(e: &std::io::Error) -> i128 {
    let s = e.to_string();
    if s.contains("does not match voucher") {
        1
    } else if s.contains("before the Unix epoch") {
        2
    } else if s.contains("out of range") {
        3
    } else if s.contains("too far ahead") {
        4
    } else if s.contains("too far behind") {
        5
    } else {
        9
    }
}

pub fn run(line: &str) -> Obs {
    let t: Vec<&str> = line.split_whitespace().collect();
    let nanos: i128 = t[0].parse().unwrap();
    let base: u64 = t[1].parse().unwrap();
    let voucher = if t[2] == "ok" {
        VOUCH.vouch(base)
    } else if let Some(o) = t[2].strip_prefix("other:") {
        VOUCH.vouch(o.parse().unwrap())
    } else {
        params2().vouch(base)
    };
    let odt = match time::OffsetDateTime::from_unix_timestamp_nanos(nanos) {
        Ok(o) => o,
        Err(_) => return vec![vec![98], vec![]],
    };
    let local = time::PrimitiveDateTime::new(odt.date(), odt.time());
    let r = catch(|| {
        // check() and new() must agree; new() then get_local_time()
        // the verdict is a function of the arguments: repeated calls must agree with each other
        let c0 = VouchedTime::check(local, base, voucher);
        let n0 = VouchedTime::new(local, base, voucher);
        let c = VouchedTime::check(local, base, voucher);
        let n = VouchedTime::new(local, base, voucher);
        if c0.is_ok() != c.is_ok() || n0.is_ok() != n.is_ok() {
            return (91, None);
        }
        match (c, n) {
            (Ok(()), Ok(v)) => {
                let back = v.get_local_time();
                v.check_or_die();
                let back_n = back.assume_utc().unix_timestamp_nanos();
                (0, Some(back_n))
            }
            (Err(e1), Err(e2)) => {
                let (a, b) = (classify(&e1), classify(&e2));
                if a == b {
                    (a, None)
                } else {
                    (90, None)
                }
            }
            _ => (91, None),
        }
    });
    match r {
        Ok((code, back)) => vec![vec![code], back.into_iter().collect()],
        Err(_) => vec![vec![99], vec![]],
    }
}
