//! Family `hcobs` (C01, C02, C07, C09):
//!   `<mi|P> <ms|P> E { b:<hex> | c:<hex> | a:<hex> | r:<hex> | ds:<k> | db:<k> | dr:<k> }* D [X<hex>] { b:<n> | c:<n> | a:<n> | r:<n> | ds:<k> | db:<k> | dr:<k> }*`
//! `P P` drives the real Encoder/Decoder (production limits); numbers drive the verif_hooks wrappers.
//! Encoder pieces: borrow / copy / anchored (read_n + encode_anchored) / encode_read.  Drains: consume k
//! slices / advance k bytes / Read k bytes.  Decoder pieces give the size of the next piece of the encoded
//! stream (or of the explicit X bytes); what is left is fed at the end.
//! fields: [enc ok]; complete encoder output (drained ++ finish); encoder state (cur,mid,max)* per piece
//!         (hooks only); [decoder 0 ok | 1 rejected]; decoder output; [flags: enc prefix ok, dec prefix ok,
//!         dec lag zero, round trip]; [max encoder lag in bytes, arena chunk allowance]
use crate::util::*;
use owning_iovec::{ConsumingIovec, OwningIovec};
use std::io::Read;
use std::num::NonZeroUsize;

pub(crate) enum Enc {
    Prod(hcobs::Encoder<'static>),
    Param(hcobs::verif_hooks::ParamEncoder<'static>),
}
pub(crate) enum Dec {
    Prod(hcobs::Decoder<'static>),
    Param(hcobs::verif_hooks::ParamDecoder<'static>),
}

fn leak(b: Vec<u8>) -> &'static [u8] {
    Box::leak(b.into_boxed_slice())
}

impl Enc {
    pub(crate) fn consumer(&mut self) -> ConsumingIovec<'_> {
        match self {
            Enc::Prod(e) => e.consumer(),
            Enc::Param(e) => e.consumer(),
        }
    }
    fn piece(&mut self, m: &str, data: Vec<u8>) {
        match m {
            "b" => {
                let d = leak(data);
                match self {
                    Enc::Prod(e) => e.encode(d),
                    Enc::Param(e) => e.encode(d),
                }
            }
            "c" => match self {
                Enc::Prod(e) => e.encode_copy(&data),
                Enc::Param(e) => e.encode_copy(&data),
            },
            "a" => {
                let n = data.len();
                let s = self.consumer().arena().read_n(&data[..], n, NonZeroUsize::MAX).unwrap();
                assert_eq!(s.slice(), &data[..]);
                match self {
                    Enc::Prod(e) => e.encode_anchored(s),
                    Enc::Param(e) => e.encode_anchored(s),
                }
            }
            "r" => match self {
                Enc::Prod(e) => {
                    let n = e.encode_read(&data[..], data.len(), NonZeroUsize::MAX).unwrap();
                    assert_eq!(n, data.len());
                }
                Enc::Param(e) => {
                    // a short-reading reader: two calls
                    let mut rd = Halves(&data[..], data.len() / 2 + 1);
                    let s = e.consumer().arena().read_n(&mut rd, data.len(), NonZeroUsize::MAX).unwrap();
                    e.encode_anchored(s);
                }
            },
            _ => panic!("bad method"),
        }
    }
    fn state(&self) -> Option<(usize, usize, bool)> {
        match self {
            Enc::Prod(_) => None,
            Enc::Param(e) => Some(e.state()),
        }
    }
    fn finish(self) -> OwningIovec<'static> {
        match self {
            Enc::Prod(e) => e.finish(),
            Enc::Param(e) => e.finish(),
        }
    }
}

struct Halves<'a>(&'a [u8], usize);
impl<'a> Read for Halves<'a> {
    fn read(&mut self, dst: &mut [u8]) -> std::io::Result<usize> {
        let n = self.1.min(dst.len()).min(self.0.len());
        dst[..n].copy_from_slice(&self.0[..n]);
        self.0 = &self.0[n..];
        Ok(n)
    }
}

impl Dec {
    pub(crate) fn consumer(&mut self) -> ConsumingIovec<'_> {
        match self {
            Dec::Prod(e) => e.consumer(),
            Dec::Param(e) => e.consumer(),
        }
    }
    fn piece(&mut self, m: &str, data: Vec<u8>) -> bool {
        match m {
            "b" => {
                let d = leak(data);
                match self {
                    Dec::Prod(e) => e.decode(d).is_ok(),
                    Dec::Param(e) => e.decode(d).is_ok(),
                }
            }
            "c" => match self {
                Dec::Prod(e) => e.decode_copy(&data).is_ok(),
                Dec::Param(e) => e.decode_copy(&data).is_ok(),
            },
            "a" | "r" => {
                if m == "r" {
                    if let Dec::Prod(e) = self {
                        return match e.decode_read(&data[..], data.len(), NonZeroUsize::MAX) {
                            Ok(n) => {
                                assert_eq!(n, data.len());
                                true
                            }
                            Err(_) => false,
                        };
                    }
                }
                let n = data.len();
                let s = self.consumer().arena().read_n(&data[..], n, NonZeroUsize::MAX).unwrap();
                match self {
                    Dec::Prod(e) => e.decode_anchored(s).is_ok(),
                    Dec::Param(e) => e.decode_anchored(s).is_ok(),
                }
            }
            _ => panic!("bad method"),
        }
    }
    fn finish(self) -> Option<OwningIovec<'static>> {
        match self {
            Dec::Prod(e) => e.finish().ok(),
            Dec::Param(e) => e.finish().ok(),
        }
    }
}

pub(crate) fn stable_bytes(c: &ConsumingIovec<'_>) -> Vec<u8> {
    let mut v = Vec::new();
    for s in c.stable_prefix() {
        v.extend_from_slice(s);
    }
    v
}

/// Applies one drain op; returns the bytes removed.
pub(crate) fn drain(c: &mut ConsumingIovec<'_>, op: &str, k: usize) -> Vec<u8> {
    let before = stable_bytes(c);
    match op {
        "ds" => {
            let lens: Vec<usize> = c.stable_prefix().iter().map(|s| s.len()).collect();
            let n = c.consume(k);
            let bytes: usize = lens[..n].iter().sum();
            before[..bytes].to_vec()
        }
        "db" => {
            let n = c.advance_slices(k);
            assert!(n <= k);
            before[..n].to_vec()
        }
        "dr" => {
            let mut buf = vec![0u8; k];
            let n = c.read(&mut buf).unwrap();
            buf.truncate(n);
            assert_eq!(&buf[..], &before[..n]);
            buf
        }
        _ => panic!("bad drain"),
    }
}

pub fn run(line: &str) -> Obs {
    let t: Vec<&str> = line.split_whitespace().collect();
    let prod = t[0] == "P";
    let (mi, ms) = if prod { hcobs::verif_hooks::prod_params() } else { (t[0].parse().unwrap(), t[1].parse().unwrap()) };
    let dpos = t.iter().position(|x| *x == "D").unwrap();
    let eops = &t[3..dpos];
    let mut dops: Vec<&str> = t[dpos + 1..].to_vec();
    let explicit: Option<Vec<u8>> = if !dops.is_empty() && dops[0].starts_with('X') { Some(unhex(&dops.remove(0)[1..])) } else { None };

    let r = catch(|| {
        // ---------------- encoder ----------------
        let mut enc = if prod { Enc::Prod(hcobs::Encoder::new()) } else { Enc::Param(hcobs::verif_hooks::ParamEncoder::new(mi, ms)) };
        let mut original: Vec<u8> = Vec::new();
        let mut drained: Vec<u8> = Vec::new();
        let mut snapshots: Vec<Vec<u8>> = Vec::new(); // drained ++ stable at every point
        let mut states: Vec<i128> = Vec::new();
        let mut max_lag = 0usize;
        for op in eops {
            let (k, v) = op.split_once(':').unwrap();
            if k.starts_with('d') {
                let n: usize = v.parse().unwrap();
                let got = drain(&mut enc.consumer(), k, n);
                drained.extend(got);
            } else {
                let data = unhex(v);
                original.extend_from_slice(&data);
                enc.piece(k, data);
                if let Some((mx, cur, mid)) = enc.state() {
                    states.extend([cur as i128, mid as i128, mx as i128]);
                }
            }
            let c = enc.consumer();
            let st = stable_bytes(&c);
            max_lag = max_lag.max(c.total_size() - st.len());
            let mut snap = drained.clone();
            snap.extend(st);
            snapshots.push(snap);
        }
        let fin = enc.finish();
        let mut out = drained.clone();
        out.extend(fin.flatten().expect("no backpatch left after finish"));
        let enc_prefix_ok = snapshots.iter().all(|s| out.starts_with(s));

        // ---------------- decoder ----------------
        let input: Vec<u8> = explicit.clone().unwrap_or(out.clone());
        let mut dec = if prod { Dec::Prod(hcobs::Decoder::new()) } else { Dec::Param(hcobs::verif_hooks::ParamDecoder::new(mi, ms)) };
        let mut pos = 0usize;
        let mut ddrained: Vec<u8> = Vec::new();
        let mut dsnaps: Vec<Vec<u8>> = Vec::new();
        let mut ok = true;
        let mut lag_zero = true;
        for op in &dops {
            let (k, v) = op.split_once(':').unwrap();
            let n: usize = v.parse().unwrap();
            if k.starts_with('d') {
                let got = drain(&mut dec.consumer(), k, n);
                ddrained.extend(got);
            } else {
                let end = (pos + n).min(input.len());
                let piece = input[pos..end].to_vec();
                pos = end;
                if !piece.is_empty() && !dec.piece(k, piece) {
                    ok = false;
                    break;
                }
            }
            let c = dec.consumer();
            let st = stable_bytes(&c);
            lag_zero &= c.total_size() == st.len();
            let mut snap = ddrained.clone();
            snap.extend(st);
            dsnaps.push(snap);
        }
        if ok && pos < input.len() {
            ok = dec.piece("c", input[pos..].to_vec());
        }
        let (dres, dout) = if !ok {
            (vec![1], vec![])
        } else {
            match dec.finish() {
                None => (vec![1], vec![]),
                Some(io) => {
                    let mut o = ddrained.clone();
                    o.extend(io.flatten().expect("decoder output has no placeholder"));
                    (vec![0], o)
                }
            }
        };
        let dec_prefix_ok = dres == vec![1] || dsnaps.iter().all(|s| dout.starts_with(s));
        let roundtrip = explicit.is_some() || (dres == vec![0] && dout == original);
        vec![
            vec![1],
            bytes_field(&out),
            states,
            dres,
            bytes_field(&dout),
            vec![enc_prefix_ok as i128, dec_prefix_ok as i128, lag_zero as i128, roundtrip as i128],
            vec![max_lag as i128],
        ]
    });
    r.unwrap_or(vec![vec![99]])
}
