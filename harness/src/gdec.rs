//! Family `gdec` (C02, C03, C05, C07): the Decoder (with caller-chosen chunk limits, hook ParamDecoder) and its
//! OwningIovec at memory level, against hcobs/GeoDec.v over iovec/Geo.v.
//!   `<mi> <ms> { d:<hex> (decode, borrowed) | c:<hex> (decode_copy) | r:<hex>:<count> (read_n of count bytes from a
//!   reader that holds <hex> into the decoder's arena, then decode_anchored) | cs:<k> (consume) | rd:<k> (Read) | fin }*`
//! After construction and after every op: [ok(1)/panic(99), return value...] (decode ops: 1 = Ok, 0 = Err), the decoder
//! state [tag, remaining / first header byte, flag] ([] after fin), the seven fields of the iovec (as family geo; empty after a
//! failed finish, which drops it), then [live chunks, live bytes, every slice in live memory].
use crate::iovw::{leak, World};
use crate::util::*;
use hcobs::verif_hooks::{prod_params, ParamDecoder};
use hcobs::{Decoder, DecodingError};
use owning_iovec::AnchoredSlice;
use owning_iovec::OwningIovec;
use std::io::Read;
use std::num::NonZeroUsize;

/// The real `Decoder` at the production limits, the hook wrapper (same code, caller-chosen limits) otherwise.
enum Dec {
    Real(Decoder<'static>),
    Param(ParamDecoder<'static>),
}
impl Dec {
    fn new(mi: usize, ms: usize) -> Dec {
        if (mi, ms) == prod_params() {
            Dec::Real(Decoder::new())
        } else {
            Dec::Param(ParamDecoder::new(mi, ms))
        }
    }
    fn iovec(&mut self) -> &mut OwningIovec<'static> {
        match self {
            Dec::Real(d) => d.verif_iovec(),
            Dec::Param(d) => d.iovec(),
        }
    }
    fn state(&self) -> (u8, usize, bool) {
        match self {
            Dec::Real(d) => d.verif_state(),
            Dec::Param(d) => d.state(),
        }
    }
    fn decode(&mut self, d: &'static [u8]) -> Result<(), DecodingError> {
        match self {
            Dec::Real(x) => x.decode(d),
            Dec::Param(x) => x.decode(d),
        }
    }
    fn decode_copy(&mut self, d: &[u8]) -> Result<(), DecodingError> {
        match self {
            Dec::Real(x) => x.decode_copy(d),
            Dec::Param(x) => x.decode_copy(d),
        }
    }
    fn decode_anchored(&mut self, s: AnchoredSlice) -> Result<(), DecodingError> {
        match self {
            Dec::Real(x) => x.decode_anchored(s),
            Dec::Param(x) => x.decode_anchored(s),
        }
    }
    fn finish(self) -> Result<OwningIovec<'static>, DecodingError> {
        match self {
            Dec::Real(x) => x.finish(),
            Dec::Param(x) => x.finish(),
        }
    }
}

pub fn run(line: &str) -> Obs {
    let t: Vec<&str> = line.split_whitespace().collect();
    let mi: usize = t[0].parse().unwrap();
    let ms: usize = t[1].parse().unwrap();
    let mut w = World::fresh();
    let mut obs: Obs = Vec::new();
    let mut dec: Option<Dec> = Some(Dec::new(mi, ms));
    let mut done: Option<OwningIovec<'static>> = None;
    let mut toks: Vec<&str> = vec!["new"];
    toks.extend(&t[2..]);
    for tok in toks {
        if tok == "new" {
            obs.push(vec![1]);
        } else {
            let p: Vec<&str> = tok.split(':').collect();
            let r = catch(|| -> Vec<i128> {
                let mut ret: Vec<i128> = vec![1];
                if p[0] == "fin" {
                    match dec.take().expect("decoder in use").finish() {
                        Ok(iov) => {
                            done = Some(iov);
                            ret.push(1);
                        }
                        Err(_) => ret.push(0),
                    }
                    return ret;
                }
                if p[0] == "cs" || p[0] == "rd" {
                    let iov: &mut OwningIovec<'static> = match dec.as_mut() {
                        Some(d) => d.iovec(),
                        None => done.as_mut().expect("finished iovec"),
                    };
                    if p[0] == "cs" {
                        ret.push(iov.consumer().consume(p[1].parse().unwrap()) as i128);
                    } else {
                        let mut buf = vec![0u8; p[1].parse().unwrap()];
                        let n = iov.consumer().read(&mut buf).unwrap();
                        let bytes: Vec<i128> = buf[..n].iter().map(|b| *b as i128).collect();
                        ret.extend(crate::iovw::digest3(&bytes));
                    }
                    return ret;
                }
                let d = dec.as_mut().expect("decoder in use");
                match p[0] {
                    "d" => {
                        let data = leak(unhex(p[1]));
                        w.add_static(data);
                        ret.push(d.decode(data).is_ok() as i128);
                    }
                    "c" => ret.push(d.decode_copy(&unhex(p[1])).is_ok() as i128),
                    "r" => {
                        let data = unhex(p[1]);
                        let count: usize = p[2].parse().unwrap();
                        let s = d.iovec().arena().read_n(&data[..], count, NonZeroUsize::MAX).unwrap();
                        let n = s.slice().len();
                        ret.push(d.decode_anchored(s).is_ok() as i128);
                        ret.push(n as i128);
                    }
                    _ => panic!("bad op"),
                }
                ret
            });
            match r {
                Ok(ret) => obs.push(ret),
                Err(_) => {
                    obs.push(vec![99]);
                    return obs;
                }
            }
        }
        let mem_ok = match dec.as_mut() {
            Some(d) => {
                let (tag, rem, flag) = d.state();
                obs.push(vec![tag as i128, rem as i128, flag as i128]);
                w.observe_one_opt(d.iovec(), &mut obs, true)
            }
            None => {
                obs.push(vec![]);
                match done.as_ref() {
                    Some(iov) => w.observe_one_opt(iov, &mut obs, true),
                    None => {
                        for _ in 0..7 {
                            obs.push(vec![]);
                        }
                        true
                    }
                }
            }
        };
        obs.push(w.globals(mem_ok));
    }
    obs
}
