//! Family `seq` (C13, C18): runs `AtomicBaseTime` on real threads under a scheduler that owns the
//! memory model.  Every atomic access and lock operation of the implementation comes through the
//! `verif_sync` hook; a thread parks before each one and the case's schedule decides which parked
//! operation is performed next and, for a load, which message of the location's history it reads
//! (any message not older than the thread's view: release/acquire view semantics, the same as
//! coq/theories/time/RA.v).
//!
//! Case: `;`-separated ops, `c <tid> <kind> <t>` (kind 0 snapshot, 1 update, 2 try_update) or
//! `s <tid> <choice>`.  One observation field per op, see RunSeq.v for the layout.
use crate::util::*;
use std::collections::HashMap;
use std::sync::atomic::Ordering;
use std::sync::{Arc, Condvar, Mutex, MutexGuard};
use vouched_time::verif_sync::{set_runtime, Runtime};
use vouched_time::AtomicBaseTime;

const VOUCH: raffle::VouchingParameters = raffle::VouchingParameters::parse_or_die(
    "VOUCH-773ec2a0e62c20cd-f9e079b78e895091-fc1da7b1b77c57cb-594b9cce3091464a",
);
const K: i128 = 1000003;
const NLOC: usize = 8;
const NTHREADS: usize = 4;

fn bits(v: raffle::Voucher) -> u64 {
    unsafe { std::mem::transmute::<raffle::Voucher, u64>(v) }
}

#[derive(Clone, Copy, PartialEq, Debug)]
enum Pending {
    Load(usize, Ordering, u64),
    Store(usize, Ordering, u64, u64),
    Lock,
    TryLock,
    Unlock,
}

#[derive(Clone, PartialEq, Debug)]
enum Status {
    Idle,
    Running,
    Parked(Pending),
    Finished(Vec<i128>),
}

#[derive(Clone, Copy, Debug)]
enum Cmd {
    Snap,
    Upd(u64),
    Try(u64),
}

#[derive(Clone)]
struct Msg {
    val: u64,
    view: [usize; NLOC],
    rel: bool,
}

struct Sched {
    addrs: Vec<usize>, // index 0 = lock, 1.. = locations 0..
    mem: Vec<Vec<Msg>>,
    tview: Vec<[usize; NLOC]>,
    lock_held: Option<usize>,
    lock_view: [usize; NLOC],
    status: Vec<Status>,
    cmd: Vec<Option<Cmd>>,
    grant: Option<(usize, u64)>,
    granted_result: Option<bool>, // outcome of try_lock for the thread that was granted
    last_obs: Vec<i128>,
    abort: bool,
    vmap: HashMap<u64, i128>,
}

struct Shared {
    m: Mutex<Sched>,
    cv: Condvar,
}

impl Shared {
    fn lock(&self) -> MutexGuard<'_, Sched> {
        self.m.lock().unwrap_or_else(|e| e.into_inner())
    }
    fn wait<'a>(&self, g: MutexGuard<'a, Sched>) -> MutexGuard<'a, Sched> {
        self.cv.wait(g).unwrap_or_else(|e| e.into_inner())
    }
}

fn ord_id(o: Ordering, is_load: bool) -> i128 {
    match o {
        Ordering::Relaxed => 0,
        Ordering::Acquire => 1,
        Ordering::Release => 2,
        Ordering::SeqCst => {
            if is_load {
                1
            } else {
                2
            }
        }
        _ => 3,
    }
}

fn join(a: &mut [usize; NLOC], b: &[usize; NLOC]) {
    for i in 0..NLOC {
        a[i] = a[i].max(b[i]);
    }
}

impl Sched {
    fn loc(&mut self, addr: usize) -> usize {
        if let Some(p) = self.addrs.iter().skip(1).position(|a| *a == addr) {
            return p;
        }
        self.addrs.push(addr);
        assert!(self.addrs.len() - 1 <= NLOC, "too many atomic locations");
        self.addrs.len() - 2
    }
    fn touch(&mut self, loc: usize, init: u64) {
        if self.mem[loc].is_empty() {
            self.mem[loc].push(Msg {
                val: init,
                view: [0; NLOC],
                rel: false,
            });
        }
    }
    fn show(&self, loc: usize, val: u64) -> i128 {
        if loc == 2 || loc == 4 {
            *self.vmap.get(&val).unwrap_or(&-1)
        } else {
            val as i128
        }
    }
    /// Performs the parked operation of `tid` with load choice `c`.
    fn perform(&mut self, tid: usize, p: Pending, c: u64) -> Option<u64> {
        match p {
            Pending::Load(loc, ord, init) => {
                self.touch(loc, init);
                let len = self.mem[loc].len();
                let lo = self.tview[tid][loc];
                let span = len - lo;
                let idx = if span == 0 { lo } else { len - 1 - (c % span as u64) as usize };
                let msg = self.mem[loc][idx].clone();
                self.tview[tid][loc] = idx;
                let acq = matches!(ord, Ordering::Acquire | Ordering::SeqCst | Ordering::AcqRel);
                if acq && msg.rel {
                    let mv = msg.view;
                    join(&mut self.tview[tid], &mv);
                }
                self.last_obs = vec![1, loc as i128, ord_id(ord, true), idx as i128, self.show(loc, msg.val)];
                Some(msg.val)
            }
            Pending::Store(loc, ord, init, val) => {
                self.touch(loc, init);
                let idx = self.mem[loc].len();
                self.tview[tid][loc] = idx;
                let rel = matches!(ord, Ordering::Release | Ordering::SeqCst | Ordering::AcqRel);
                let view = self.tview[tid];
                self.mem[loc].push(Msg { val, view, rel });
                self.last_obs = vec![2, loc as i128, ord_id(ord, false), idx as i128, self.show(loc, val)];
                None
            }
            Pending::Lock => {
                assert!(self.lock_held.is_none());
                self.lock_held = Some(tid);
                let lv = self.lock_view;
                join(&mut self.tview[tid], &lv);
                self.last_obs = vec![3, 1];
                None
            }
            Pending::TryLock => {
                if self.lock_held.is_some() {
                    self.last_obs = vec![4, 0];
                    self.granted_result = Some(false);
                } else {
                    self.lock_held = Some(tid);
                    let lv = self.lock_view;
                    join(&mut self.tview[tid], &lv);
                    self.last_obs = vec![4, 1];
                    self.granted_result = Some(true);
                }
                None
            }
            Pending::Unlock => {
                self.lock_held = None;
                let tv = self.tview[tid];
                join(&mut self.lock_view, &tv);
                self.last_obs = vec![5];
                None
            }
        }
    }
}

struct Rt {
    sh: Arc<Shared>,
    tid: usize,
}

const ABORT: &str = "verif-abort";

impl Rt {
    /// Parks with `p` pending until the scheduler grants this thread a step, then performs it.
    fn sync(&self, mk: impl FnOnce(&mut Sched) -> Pending, may_panic: bool) -> (Option<u64>, Option<bool>) {
        let mut g = self.sh.lock();
        if g.abort {
            drop(g);
            if may_panic {
                std::panic::panic_any(ABORT);
            }
            return (Some(0), Some(false));
        }
        let p = mk(&mut *g);
        g.status[self.tid] = Status::Parked(p);
        self.sh.cv.notify_all();
        loop {
            if g.abort {
                drop(g);
                if may_panic {
                    std::panic::panic_any(ABORT);
                }
                return (Some(0), Some(false));
            }
            if let Some((t, c)) = g.grant {
                if t == self.tid {
                    g.grant = None;
                    g.granted_result = None;
                    let v = g.perform(self.tid, p, c);
                    let r = g.granted_result;
                    g.status[self.tid] = Status::Running;
                    self.sh.cv.notify_all();
                    return (v, r);
                }
            }
            g = self.sh.wait(g);
        }
    }
}

impl Runtime for Rt {
    fn load(&self, addr: usize, init: u64, ord: Ordering) -> u64 {
        self.sync(|s| Pending::Load(s.loc(addr), ord, init), true).0.unwrap_or(0)
    }
    fn store(&self, addr: usize, init: u64, val: u64, ord: Ordering) {
        self.sync(|s| Pending::Store(s.loc(addr), ord, init, val), true);
    }
    fn lock(&self, _addr: usize) {
        self.sync(|_| Pending::Lock, true);
    }
    fn try_lock(&self, _addr: usize) -> bool {
        self.sync(|_| Pending::TryLock, true).1.unwrap_or(false)
    }
    fn unlock(&self, _addr: usize) {
        if std::thread::panicking() {
            // unwinding through a guard: release at once, without a scheduling point
            let mut g = self.sh.lock();
            if g.lock_held == Some(self.tid) {
                g.lock_held = None;
                let tv = g.tview[self.tid];
                join(&mut g.lock_view, &tv);
            }
            return;
        }
        self.sync(|_| Pending::Unlock, false);
    }
}

fn worker(sh: Arc<Shared>, tid: usize, abt: Arc<AtomicBaseTime>) {
    set_runtime(Some(Arc::new(Rt { sh: sh.clone(), tid })));
    loop {
        let cmd = {
            let mut g = sh.lock();
            loop {
                if g.abort {
                    set_runtime(None);
                    return;
                }
                if let Some(c) = g.cmd[tid].take() {
                    break c;
                }
                g = sh.wait(g);
            }
        };
        let r = std::panic::catch_unwind(std::panic::AssertUnwindSafe(|| match cmd {
            Cmd::Snap => {
                let (t, v) = abt.snapshot();
                let vm = if bits(v) == bits(VOUCH.vouch(t)) { t as i128 + K } else { -1 };
                vec![10, t as i128, vm]
            }
            Cmd::Upd(t) => {
                abt.update((t, VOUCH.vouch(t)));
                vec![11]
            }
            Cmd::Try(t) => {
                let b = abt.try_update((t, VOUCH.vouch(t)));
                vec![12, b as i128]
            }
        }));
        let res = match r {
            Ok(v) => v,
            Err(e) => {
                if e.downcast_ref::<&str>() == Some(&ABORT) {
                    vec![14]
                } else {
                    vec![13]
                }
            }
        };
        let mut g = sh.lock();
        g.status[tid] = Status::Finished(res);
        sh.cv.notify_all();
    }
}

pub fn run(line: &str) -> Obs {
    let abt = Arc::new(AtomicBaseTime::new());
    let addrs = abt.verif_addrs().to_vec();
    let mut vmap = HashMap::new();
    vmap.insert(bits(VOUCH.vouch(0)), K);
    let ops: Vec<Vec<&str>> = line
        .split(';')
        .map(|o| o.split_whitespace().collect::<Vec<_>>())
        .filter(|o| !o.is_empty())
        .collect();
    for o in &ops {
        if o[0] == "c" {
            let t: u64 = o[3].parse().unwrap();
            vmap.insert(bits(VOUCH.vouch(t)), t as i128 + K);
        }
    }
    let sh = Arc::new(Shared {
        m: Mutex::new(Sched {
            addrs,
            mem: vec![Vec::new(); NLOC],
            tview: vec![[0; NLOC]; NTHREADS],
            lock_held: None,
            lock_view: [0; NLOC],
            status: vec![Status::Idle; NTHREADS],
            cmd: vec![None; NTHREADS],
            grant: None,
            granted_result: None,
            last_obs: Vec::new(),
            abort: false,
            vmap,
        }),
        cv: Condvar::new(),
    });
    let handles: Vec<_> = (0..NTHREADS)
        .map(|tid| {
            let sh = sh.clone();
            let abt = abt.clone();
            std::thread::spawn(move || worker(sh, tid, abt))
        })
        .collect();

    let mut obs: Obs = Vec::new();
    // waits until thread tid is parked or finished; returns its completion, if any
    let settle = |tid: usize| -> Option<Vec<i128>> {
        let mut g = sh.lock();
        loop {
            let busy = g.grant.is_some() || g.cmd[tid].is_some() || g.status[tid] == Status::Running;
            if !busy {
                break;
            }
            g = sh.wait(g);
        }
        match &g.status[tid] {
            Status::Finished(r) => Some(r.clone()),
            _ => None,
        }
    };
    for o in &ops {
        let tid: usize = o[1].parse().unwrap();
        assert!(tid < NTHREADS);
        if o[0] == "c" {
            let kind: i128 = o[2].parse().unwrap();
            let t: u64 = o[3].parse().unwrap();
            let mut g = sh.lock();
            if matches!(g.status[tid], Status::Finished(_)) {
                g.status[tid] = Status::Idle;
            }
            if g.status[tid] != Status::Idle {
                obs.push(vec![0, tid as i128, -1]);
                continue;
            }
            let mut f = vec![0, tid as i128, kind, t as i128, g.tview[tid][0] as i128];
            g.cmd[tid] = Some(match kind {
                0 => Cmd::Snap,
                1 => Cmd::Upd(t),
                _ => Cmd::Try(t),
            });
            g.status[tid] = Status::Running;
            sh.cv.notify_all();
            drop(g);
            if let Some(r) = settle(tid) {
                f.extend(r); // returned without any atomic operation
            }
            obs.push(f);
        } else {
            let c: u64 = o[2].parse().unwrap();
            let mut g = sh.lock();
            match g.status[tid].clone() {
                Status::Parked(p) => {
                    if p == Pending::Lock && g.lock_held.is_some() {
                        obs.push(vec![3, 0]);
                        continue;
                    }
                    g.grant = Some((tid, c));
                    sh.cv.notify_all();
                    drop(g);
                    let fin = settle(tid);
                    let mut f = sh.lock().last_obs.clone();
                    if let Some(r) = fin {
                        f.extend(r);
                    }
                    obs.push(f);
                }
                _ => obs.push(vec![-1]),
            }
        }
    }
    // summary, then tear down: parked threads unwind out of their call
    {
        let mut g = sh.lock();
        let lens: Vec<i128> = (0..5).map(|l| g.mem[l].len().max(1) as i128).collect();
        let mut f = vec![g.lock_held.map(|t| t as i128).unwrap_or(-1)];
        f.extend(lens);
        obs.push(f);
        g.abort = true;
        sh.cv.notify_all();
    }
    for h in handles {
        let _ = h.join();
    }
    obs
}
