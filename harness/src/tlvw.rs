//! Family `tlvw` (C11): `<new|slice|sorted> <rec|iov|hcobs> { <tag>=<value> }*`
//! value := h<hex> (&[u8]) | B<hex> (Cow borrowed) | H<hex> (Cow owned) | s<hex> (&str) | S<hex> (Cow<str> owned)
//!        | L<len> (size only, never encoded) | [ <tag>=<value>,... ] (nested MessageWrapper::new)
//! fields: [ctor code]; [rough_tlv_len]; emitted bytes; [view code]; iter (tag, vlen, bytes)*
use crate::util::*;
use owning_iovec::ZeroCopySink;
use rough_tlv::{DecodingError, EncodingError, MessageView, MessageWrapper, Tag, ToRoughTLV};
use std::borrow::Cow;

pub enum HV {
    Slice(&'static [u8]),
    CowB(Cow<'static, [u8]>),
    Str(&'static str),
    CowS(Cow<'static, str>),
    Nested(Box<MessageWrapper<'static, 'static, HV>>),
    Sized(usize),
}

impl ToRoughTLV<'static> for HV {
    fn to_rough_tlv<'dst, Sink>(&self, sink: &mut Sink)
    where
        'static: 'dst,
        Sink: ZeroCopySink<'dst> + ?Sized,
    {
        match self {
            HV::Slice(x) => x.to_rough_tlv(sink),
            HV::CowB(x) => x.to_rough_tlv(sink),
            HV::Str(x) => x.to_rough_tlv(sink),
            HV::CowS(x) => x.to_rough_tlv(sink),
            HV::Nested(x) => (&**x).to_rough_tlv(sink),
            HV::Sized(_) => panic!("size-only value encoded"),
        }
    }
    fn rough_tlv_len(&self) -> usize {
        match self {
            HV::Slice(x) => x.rough_tlv_len(),
            HV::CowB(x) => x.rough_tlv_len(),
            HV::Str(x) => x.rough_tlv_len(),
            HV::CowS(x) => x.rough_tlv_len(),
            HV::Nested(x) => x.rough_tlv_len(),
            HV::Sized(n) => *n,
        }
    }
}

fn leak(b: Vec<u8>) -> &'static [u8] {
    Box::leak(b.into_boxed_slice())
}

/// split at top-level commas
fn split_top(s: &str, sep: char) -> Vec<&str> {
    let mut out = Vec::new();
    let (mut depth, mut start) = (0i32, 0usize);
    for (i, c) in s.char_indices() {
        match c {
            '[' => depth += 1,
            ']' => depth -= 1,
            c if c == sep && depth == 0 => {
                out.push(&s[start..i]);
                start = i + 1;
            }
            _ => {}
        }
    }
    if start < s.len() {
        out.push(&s[start..]);
    }
    out
}

fn parse_entry(s: &str) -> Option<(Tag, HV)> {
    let (t, v) = s.split_once('=').unwrap();
    let tag: u32 = t.parse().unwrap();
    Some((tag.into(), parse_value(v)?))
}

fn parse_value(v: &str) -> Option<HV> {
    let body = &v[1..];
    Some(match v.as_bytes()[0] {
        b'h' => HV::Slice(leak(unhex(body))),
        b'B' => HV::CowB(Cow::Borrowed(leak(unhex(body)))),
        b'H' => HV::CowB(Cow::Owned(unhex(body))),
        b's' => HV::Str(std::str::from_utf8(leak(unhex(body))).unwrap()),
        b'S' => HV::CowS(Cow::Owned(String::from_utf8(unhex(body)).unwrap())),
        b'L' => HV::Sized(body.parse::<u128>().unwrap().min(usize::MAX as u128) as usize),
        b'[' => {
            let inner = &v[1..v.len() - 1];
            let mut es = Vec::new();
            for e in split_top(inner, ',') {
                es.push(parse_entry(e)?);
            }
            HV::Nested(Box::new(MessageWrapper::new(es).ok()?))
        }
        _ => panic!("bad value"),
    })
}

struct Rec(Vec<u8>);
impl<'a> ZeroCopySink<'a> for Rec {
    fn append_copy(&mut self, b: &[u8]) {
        self.0.extend_from_slice(b);
    }
    fn append_borrow(&mut self, b: &'a [u8]) {
        self.0.extend_from_slice(b);
    }
}

fn ecode(e: &EncodingError) -> i128 {
    match e {
        EncodingError::NonMonotonicTags(_) => 1,
        EncodingError::TooManyElements(_) => 2,
        EncodingError::ValueTooLarge(_) => 3,
        EncodingError::TotalTooLarge(_) => 4,
        _ => 9,
    }
}

fn has_sized(v: &HV) -> bool {
    matches!(v, HV::Sized(_))
}

pub fn run(line: &str) -> Obs {
    let t: Vec<&str> = line.split_whitespace().collect();
    let mut entries: Vec<(Tag, HV)> = Vec::new();
    for e in &t[2..] {
        match parse_entry(e) {
            Some(x) => entries.push(x),
            None => return vec![vec![97]], // a nested message failed to construct: not a case
        }
    }
    let sized = entries.iter().any(|e| has_sized(&e.1));
    let sink_kind = t[1];
    let r = catch(move || {
        let mut obs: Obs = Vec::new();
        let leaked: &'static mut [(Tag, HV)];
        let w = match t[0] {
            "new" => MessageWrapper::new(entries),
            "slice" => {
                leaked = Box::leak(entries.into_boxed_slice());
                MessageWrapper::new_from_slice(leaked)
            }
            "sorted" => {
                leaked = Box::leak(entries.into_boxed_slice());
                MessageWrapper::new_from_sorted(leaked)
            }
            _ => panic!("bad ctor"),
        };
        let w = match w {
            Err(e) => return vec![vec![ecode(&e)]],
            Ok(w) => w,
        };
        obs.push(vec![0]);
        obs.push(vec![w.rough_tlv_len() as i128]);
        if sized {
            return obs;
        }
        let bytes: Vec<u8> = match sink_kind {
            "rec" => {
                let mut s = Rec(Vec::new());
                w.to_rough_tlv(&mut s);
                s.0
            }
            "iov" => {
                let mut s = owning_iovec::OwningIovec::new();
                w.to_rough_tlv(&mut s);
                s.flatten().expect("complete")
            }
            "hcobs" => {
                let mut enc = hcobs::Encoder::new();
                w.to_rough_tlv(&mut enc);
                let encoded = enc.finish().flatten().expect("complete");
                let mut dec = hcobs::Decoder::new();
                dec.decode(&encoded).expect("decodes");
                dec.finish().expect("terminates").flatten().expect("complete")
            }
            _ => panic!("bad sink"),
        };
        obs.push(bytes_field(&bytes));
        match MessageView::new((&bytes[..]).into()) {
            Err(e) => obs.push(vec![match e {
                DecodingError::ImpossibleHeader(_) => 1,
                DecodingError::TruncatedHeader(_) => 2,
                DecodingError::NonMonotonicOffsets(_) => 3,
                DecodingError::NonMonotonicTags(_) => 4,
                DecodingError::TruncatedPayload(_) => 5,
                _ => 9,
            }]),
            Ok(view) => {
                obs.push(vec![0]);
                let mut it = Vec::new();
                for (i, (tag, v)) in view.iter().enumerate() {
                    it.push(tag.value() as i128);
                    it.push(v.len() as i128);
                    it.extend(bytes_field(v));
                    assert_eq!(view.get(i), Some((tag, v)));
                    // a lookup returns a value stored under exactly that tag
                    let f = view.find(tag).expect("present tag is found");
                    assert!(view.iter().any(|(t2, v2)| t2 == tag && v2 == f));
                }
                obs.push(it);
            }
        }
        obs
    });
    match r {
        Ok(o) => o,
        Err(_) => vec![vec![99]],
    }
}
