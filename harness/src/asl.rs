//! Family `asl` (C05, C17): one ByteArena and up to six AnchoredSlices.
//!   `{ op }*` with op one of
//!   rn:<slot>:<hex>:<count> (read_n of count bytes from a reader that holds <hex>, into the slot)
//!   | sp:<slot>:<n> (skip_prefix) | ds:<slot>:<n> (drop_suffix) | sa:<slot>:<mid>:<slot2> (split_at: left stays, right into slot2)
//!   | tk:<slot>:<slot2> (take into slot2) | cn:<slot>:<slot2> (clone) | dr:<slot> | fl (flush_cache) | ec:<n> (ensure_capacity)
//! After every op: [ok, return value], then per slot [] or [chunk#, offset, len, anchor chunk#, bytes...], then the cache
//! [chunk#, cap, bump] or [], then [live chunks, live bytes, every slice inside the chunk its own anchor holds].
use crate::util::*;
use owning_iovec::{AnchoredSlice, ByteArena};
use std::num::NonZeroUsize;

const NSLOT: usize = 6;

pub fn run(line: &str) -> Obs {
    let base_chunks = ByteArena::num_live_chunks();
    let base_bytes = ByteArena::num_live_bytes();
    let base_serial = ByteArena::verif_live_chunks().1;
    let mut arena = ByteArena::new();
    let mut slots: Vec<Option<AnchoredSlice>> = (0..NSLOT).map(|_| None).collect();
    let mut obs: Obs = Vec::new();
    let serial_of = |start: usize| -> (i128, usize, usize) {
        for (s, e, serial) in ByteArena::verif_live_chunks().0 {
            if s == start {
                return ((serial - base_serial) as i128, s, e);
            }
        }
        (-1, 0, 0)
    };
    for tok in line.split_whitespace() {
        let p: Vec<&str> = tok.split(':').collect();
        let r = catch(|| -> Vec<i128> {
            let mut ret: Vec<i128> = vec![1];
            match p[0] {
                "rn" => {
                    let i: usize = p[1].parse().unwrap();
                    let data = unhex(p[2]);
                    let count: usize = p[3].parse().unwrap();
                    let s = arena.read_n(&data[..], count, NonZeroUsize::MAX).unwrap();
                    ret.push(s.slice().len() as i128);
                    slots[i] = Some(s);
                }
                "sp" | "ds" => {
                    let i: usize = p[1].parse().unwrap();
                    let n: usize = p[2].parse().unwrap();
                    let s = slots[i].as_mut().expect("slot in use");
                    ret.push(if p[0] == "sp" { s.skip_prefix(n) } else { s.drop_suffix(n) } as i128);
                }
                "sa" => {
                    let (i, mid, j): (usize, usize, usize) = (p[1].parse().unwrap(), p[2].parse().unwrap(), p[3].parse().unwrap());
                    let s = slots[i].take().expect("slot in use");
                    let (l, r) = s.split_at(mid);
                    slots[i] = Some(l);
                    slots[j] = Some(r);
                }
                "tk" => {
                    let (i, j): (usize, usize) = (p[1].parse().unwrap(), p[2].parse().unwrap());
                    let t = slots[i].as_mut().expect("slot in use").take();
                    slots[j] = Some(t);
                }
                "cn" => {
                    let (i, j): (usize, usize) = (p[1].parse().unwrap(), p[2].parse().unwrap());
                    let c = slots[i].as_ref().expect("slot in use").clone();
                    slots[j] = Some(c);
                }
                "dr" => {
                    let i: usize = p[1].parse().unwrap();
                    slots[i] = None;
                }
                "fl" => arena.flush_cache(),
                "ec" => arena.ensure_capacity(p[1].parse().unwrap()),
                _ => panic!("bad op"),
            }
            ret
        });
        match r {
            Ok(ret) => obs.push(ret),
            Err(_) => {
                obs.push(vec![99]);
                return obs;
            }
        }
        let mut mem_ok = true;
        for s in &slots {
            match s {
                None => obs.push(vec![]),
                Some(a) => {
                    let sl = a.slice();
                    let (addr, len) = (sl.as_ptr() as usize, sl.len());
                    let (aserial, start, end) = serial_of(a.verif_chunk());
                    let mut f: Vec<i128>;
                    if a.verif_chunk() != 0 && aserial > 0 && start <= addr && addr + len <= end {
                        f = vec![aserial, (addr - start) as i128, len as i128, aserial];
                    } else {
                        // not inside the chunk its own anchor holds: only an empty slice may be
                        mem_ok &= len == 0;
                        f = vec![0, 0, len as i128, if a.verif_chunk() == 0 { 0 } else { aserial }];
                    }
                    if mem_ok {
                        f.extend(bytes_field(sl));
                    }
                    obs.push(f);
                }
            }
        }
        obs.push(match arena.verif_cache() {
            None => vec![],
            Some((s, b, e)) => vec![serial_of(s).0, (e - s) as i128, (b - s) as i128],
        });
        obs.push(vec![
            (ByteArena::num_live_chunks() - base_chunks) as i128,
            (ByteArena::num_live_bytes() - base_bytes) as i128,
            mem_ok as i128,
        ]);
    }
    obs
}
